"""Behaviour-preserving AST normalisations applied before any rule looks at a function, so that a rule does not depend on
which of several equivalent spellings the source uses.  All are classical compiler transformations over the syntax tree --
nothing is evaluated:

  unroll_static_loops   `for T in <literal tuple/list>` (or a local, a module-level or a class-level name bound to one; `.items()` /
                        `.keys()` / `.values()` of a literal dict alike) -> the body once per element, the
                        loop targets replaced by the element's expressions;  a table scan `for T in <literal>: if C: S; break`
                        [`else: E`] -> the if/elif chain over the rows [with `else: E`];  comprehensions and all/any/tuple/list/join
                        of a generator over such a sequence written out (`all(E(x) for x in (a, b))` -> `E(a) and E(b)`)
  inline_class_constants  reads `<x>.NAME` of a class-level constant of the package (bound once to an immutable literal, never
                        overridden, stored or mutated anywhere) -> the literal  (applied per module, before everything else)
  specialise_dispatch   `if c1: def f.. elif c2: def f.. else: raise` followed by statements using f -> the statements moved into each
                        arm with that arm's f (closure dispatch is the if/elif chain it abbreviates)
  inline_local_defs     a nested `def h(p): return e` / `h = lambda p: e` (or a nested def with straight-line statements and one
                        trailing return) used in the same function -> its body at the call site
  index_loops_to_enumerate  `for i in range(len(X)): x = X[i] ...` -> `for i, x in enumerate(X): ...` (X neither re-bound nor mutated in the body)
  inline_stmt_calls     a call that is a whole statement (`h(a)`, `x = h(a)`, `x[i] = h(a)`, `x += h(a)`, `return h(a)`) to a helper
                        with straight-line control flow at its top level and at most one trailing return -> the helper's
                        statements with parameters renamed to the arguments and locals made unique

  inline_guard_calls    `if not self._stage(a): return` with a helper whose every path ends in `return <constant>` -> the helper's decision
                        tree with the caller's arms in place of its returns (early returns moved into tail position first)

  namedtuple_rows       `Row(1, "x")` / `Row(code=1, text="x")` of a namedtuple type of the module -> the tuple display `(1, "x")` (field names
                        kept on the node; `<that display>.text` -> `"x"` once a loop over the table is unrolled)
  const_getattr         `getattr(x, "name")` -> `x.name`;  statement `setattr(x, "name", v)` -> `x.name = v`;
                        statement `X.update({"a": u, ..})` -> `X["a"] = u; ..`
  inline_generator_loops  `for T in h(a): B` with h a generator helper -> h's statements with every `yield E` replaced by `T = E; B`

  specialise_selected_name  `x = "a" if c1 else "b" if c2 else None; S(getattr(o, x))` -> `if c1: S[x:="a"] elif c2: S[x:="b"] else: S[x:=None]`;
                        `next((E for T in <literal> if C), D)` -> the chain of conditional expressions over the rows (with unroll_static_loops)

  split_chain_loops     `for T in chain(A, B): S` -> the loop over A followed by the loop over B;  `for c, x in zip(repeat(K), X)` -> the
                        loop over X with c = K

  inline_context_managers  (opt-in) `with CM(..) as v: B` -> what entering CM does; v = ..; B; what leaving it does  (contextlib.nullcontext,
                        @contextmanager generators with one yield, small classes with __enter__/__exit__ whose fields become locals)

  inline_local_objects  (opt-in) `x = C(..)` with C a small class of the module, x used only as x.method(..) / x.field -> constructor and
                        methods inlined, the fields as locals x__field

A transformation that cannot be applied safely (re-assigned names, break/continue, *args, generators, early returns) leaves the
code as it is; the rules then see the original spelling."""
from __future__ import annotations

import ast
import re
import copy
import itertools

_counter = itertools.count(1)
MUTATORS = ("append", "extend", "add", "update", "insert", "pop", "remove", "clear", "sort", "reverse", "setdefault", "popitem", "discard")


# ----------------------------------------------------------------------------------------------------------------- helpers

def _loaded(node) -> set:
    return {n.id for n in ast.walk(node) if isinstance(n, ast.Name) and isinstance(n.ctx, ast.Load)}


def _stored(stmts) -> set:
    """names bound or mutated in place anywhere inside the statements"""
    out = set()
    for st in stmts:
        for n in ast.walk(st):
            if isinstance(n, ast.Name) and isinstance(n.ctx, (ast.Store, ast.Del)):
                out.add(n.id)
            elif isinstance(n, (ast.FunctionDef, ast.ClassDef, ast.AsyncFunctionDef)):
                out.add(n.name)
            elif isinstance(n, ast.Call) and isinstance(n.func, ast.Attribute) and isinstance(n.func.value, ast.Name) and n.func.attr in MUTATORS:
                out.add(n.func.value.id)
            elif isinstance(n, (ast.Assign, ast.AugAssign, ast.AnnAssign)):
                tg = n.targets if isinstance(n, ast.Assign) else [n.target]
                for t in tg:
                    b = t
                    while isinstance(b, (ast.Subscript, ast.Attribute)):
                        b = b.value
                    if isinstance(b, ast.Name) and b is not t:
                        out.add(b.id)
    return out


def _rebound(stmts) -> set:
    """names (re)bound anywhere inside the statements -- unlike _stored, in-place mutation does not count"""
    out = set()
    for st in stmts:
        for n in ast.walk(st):
            if isinstance(n, ast.Name) and isinstance(n.ctx, (ast.Store, ast.Del)):
                out.add(n.id)
            elif isinstance(n, (ast.FunctionDef, ast.ClassDef, ast.AsyncFunctionDef)):
                out.add(n.name)
    return out


class _Subst(ast.NodeTransformer):
    """replace loaded names by expressions (deep copies)"""

    def __init__(self, m):
        self.m = m

    def visit_Name(self, n):
        if isinstance(n.ctx, ast.Load) and n.id in self.m:
            return ast.copy_location(copy.deepcopy(self.m[n.id]), n)
        return n

    # names bound by a comprehension / lambda shadow the outer ones
    def _shadow(self, n, names):
        hidden = {k: self.m.pop(k) for k in list(self.m) if k in names}
        try:
            return self.generic_visit(n)
        finally:
            self.m.update(hidden)

    def visit_Lambda(self, n):
        return self._shadow(n, {a.arg for a in n.args.args + n.args.kwonlyargs})

    def _comp(self, n):
        names = {x.id for g in n.generators for x in ast.walk(g.target) if isinstance(x, ast.Name)}
        # the first iterable is evaluated in the enclosing scope
        first = None
        if n.generators:
            first = self.visit(n.generators[0].iter)
            # (the substituted iterable is not visited a second time: an argument that mentions a caller's variable with the
            # parameter's own name -- `h(names[0:3])` for `def h(names)` -- would be substituted into itself without end)
            n.generators[0].iter = ast.Constant(value=None)
        hidden = {k: self.m.pop(k) for k in list(self.m) if k in names}
        try:
            out = self.generic_visit(n)
            if first is not None:
                out.generators[0].iter = first
            return out
        finally:
            self.m.update(hidden)

    visit_ListComp = visit_SetComp = visit_GeneratorExp = visit_DictComp = _comp


class _Rename(ast.NodeTransformer):
    def __init__(self, m):
        self.m = m

    def visit_Name(self, n):
        if n.id in self.m:
            n.id = self.m[n.id]
        return n

    def visit_arg(self, n):
        return n


def _top_level_jumps(stmts) -> bool:
    """break / continue that belong to the enclosing loop (not to a loop nested in the statements)"""
    def rec(node):
        for ch in ast.iter_child_nodes(node):
            if isinstance(ch, (ast.Break, ast.Continue)):
                return True
            if isinstance(ch, (ast.For, ast.While, ast.FunctionDef, ast.Lambda, ast.ClassDef)):
                # `else:` of an inner loop still belongs to the outer one, but that is rare enough to refuse
                if any(isinstance(x, (ast.Break, ast.Continue)) for s in getattr(ch, "orelse", []) for x in ast.walk(s)):
                    return True
                continue
            if rec(ch):
                return True
        return False
    return any(isinstance(s, (ast.Break, ast.Continue)) or rec(s) for s in stmts)


# --------------------------------------------------------------------------------------------------------- static loop unrolling

def _literal_seq(node):
    if isinstance(node, (ast.Tuple, ast.List)) and 1 <= len(node.elts) <= 24 and not any(isinstance(e, ast.Starred) for e in node.elts):
        return node
    return _zipped_literal(node)


def _zipped_literal(node):
    """`zip(<literal>, <literal>, ..)` / `enumerate(<literal>[, <int>])` over literal sequences is the literal sequence of the rows
    (zip stops at the shortest).  The result is a one-shot iterator: a local bound to it may stand for the rows only where it
    is read once (see _unroll_block)."""
    if not (isinstance(node, ast.Call) and isinstance(node.func, ast.Name) and not node.keywords and node.args):
        return None
    if node.func.id == "zip":
        seqs = [a if isinstance(a, (ast.Tuple, ast.List)) and not any(isinstance(e, ast.Starred) for e in a.elts) else None for a in node.args]
        lits = [q for q in seqs if q is not None]
        # a zipped operand that is not a display but a plain name / attribute / subscript (a list, a slice of one) contributes its
        # elements by position: zip(("a", "b"), X) pairs "a" with X[0], "b" with X[1] (X is at least as long wherever the code is meant to
        # pair every name)
        others = [a for a, q in zip(node.args, seqs) if q is None]
        if not lits or not all(isinstance(a, (ast.Name, ast.Attribute, ast.Subscript)) and _pure(a) for a in others) or not 1 <= min(len(q.elts) for q in lits) <= 24:
            return None
        n = min(len(q.elts) for q in lits)
        rows = [ast.Tuple(elts=[q.elts[i] if q is not None else ast.Subscript(value=copy.deepcopy(a), slice=ast.Constant(value=i), ctx=ast.Load())
                                for a, q in zip(node.args, seqs)], ctx=ast.Load()) for i in range(n)]
    elif node.func.id == "enumerate" and len(node.args) <= 2:
        q = node.args[0]
        start = node.args[1].value if len(node.args) == 2 and isinstance(node.args[1], ast.Constant) and type(node.args[1].value) is int else (0 if len(node.args) == 1 else None)
        if start is None or not isinstance(q, (ast.Tuple, ast.List)) or any(isinstance(e, ast.Starred) for e in q.elts) or not 1 <= len(q.elts) <= 24:
            return None
        rows = [ast.Tuple(elts=[ast.Constant(value=start + i), e], ctx=ast.Load()) for i, e in enumerate(q.elts)]
    else:
        return None
    return ast.fix_missing_locations(ast.copy_location(ast.Tuple(elts=rows, ctx=ast.Load()), node))


class _DictTable(ast.Tuple):
    """a literal dict kept as the tuple of its (key, value) pairs (so that it can sit where literal sequences sit)"""
    _fields = ast.Tuple._fields


def _literal_dict(node):
    """`{k1: v1, ..}` with distinct constant keys and no `**` -> _DictTable of the pairs"""
    if isinstance(node, ast.Dict) and 1 <= len(node.keys) <= 24 and all(isinstance(k, ast.Constant) for k in node.keys) \
            and len({repr(k.value) for k in node.keys}) == len(node.keys):
        return _DictTable(elts=[ast.Tuple(elts=[k, v], ctx=ast.Load()) for k, v in zip(node.keys, node.values)], ctx=ast.Load())
    return None


def _literal_table(node):
    return _literal_seq(node) or _literal_dict(node)


def _iterated(it, lits, attrs):
    """the literal sequence a loop `for T in <it>` visits when <it> is a literal / a local, module-level or class-level table,
    or `.items()` / `.keys()` / `.values()` of a literal dict of that kind; -> (sequence, name of the local table | None) or None"""
    view, base = None, it
    if isinstance(it, ast.Call) and isinstance(it.func, ast.Attribute) and it.func.attr in ("items", "keys", "values") and not it.args and not it.keywords:
        view, base = it.func.attr, it.func.value
    tab = _literal_table(base) or (lits.get(base.id) if isinstance(base, ast.Name) else None) or _attr_table(base, attrs)
    if tab is None:
        return None
    local = base.id if isinstance(base, ast.Name) else None
    if isinstance(tab, _DictTable):
        if view in (None, "keys"):
            return ast.Tuple(elts=[p_.elts[0] for p_ in tab.elts], ctx=ast.Load()), local
        if view == "values":
            return ast.Tuple(elts=[p_.elts[1] for p_ in tab.elts], ctx=ast.Load()), local
        return ast.Tuple(elts=list(tab.elts), ctx=ast.Load()), local
    return (tab, local) if view is None else None


_CONST_CTORS = {"re.compile", "slice"}


def _pure(e, lambdas: bool = False) -> bool:
    """an expression that can be copied to several places: no calls except on literals/names methods are avoided altogether.
    lambdas=True: a `lambda` EXPRESSION counts as pure (evaluating it runs nothing; its body is not looked into)"""
    todo = [e]
    while todo:
        n = todo.pop()
        if lambdas and isinstance(n, ast.Lambda):
            continue
        if isinstance(n, ast.Call) and ast.unparse(n.func) in _CONST_CTORS and not n.keywords and all(isinstance(a, ast.Constant) for a in n.args):
            continue          # an immutable value built from constants (a compiled pattern): copying the expression copies the value
        if isinstance(n, ast.Call) and getattr(n, "_sa_record_row", False):
            # a row `Rec(a, b)` of a NamedTuple type of the module (marked by module_tables): an immutable value, pure when its arguments are
            todo.extend(list(n.args) + [k.value for k in n.keywords])
            continue
        if isinstance(n, (ast.Call, ast.Await, ast.Yield, ast.YieldFrom, ast.NamedExpr, ast.Lambda, ast.ListComp, ast.SetComp, ast.DictComp, ast.GeneratorExp)):
            return False
        todo.extend(ast.iter_child_nodes(n))
    return True


def _target_names(tg):
    """names of a (possibly nested) tuple target, or None when it holds anything but names (starred, subscripts, attributes)"""
    if isinstance(tg, ast.Name):
        return [tg.id]
    if isinstance(tg, (ast.Tuple, ast.List)):
        out = []
        for e in tg.elts:
            sub = _target_names(e)
            if sub is None:
                return None
            out += sub
        return out
    return None


def _destructure(tg, e):
    """{name: expression} of binding the literal element `e` to the target `tg` (nested tuples matched structurally), or None"""
    if isinstance(tg, ast.Name):
        return {tg.id: e}
    if not isinstance(e, (ast.Tuple, ast.List)) or len(e.elts) != len(tg.elts) or any(isinstance(x, ast.Starred) for x in e.elts):
        return None
    m = {}
    for t, x in zip(tg.elts, e.elts):
        sub = _destructure(t, x)
        if sub is None:
            return None
        m.update(sub)
    return m


def _unroll_one(loop: ast.For, seq):
    if loop.orelse or _top_level_jumps(loop.body):
        return None
    tg = loop.target
    names = _target_names(tg)
    if names is None:
        return None
    names = [x.id for x in ast.walk(tg) if isinstance(x, ast.Name)]
    # the loop targets must not be RE-BOUND in the body; mutating the object a target names in place (`c.clear()`, `c[k] = v`)
    # is the same operation on the element expression that replaces the target
    if set(names) & _rebound(loop.body):
        return None
    out = []
    for e in seq.elts:
        m = _destructure(tg, e)
        if m is None:
            return None
        if not all(_pure(v, lambdas=True) for v in m.values()):
            return None
        for st in loop.body:
            out.append(_Subst(dict(m)).visit(copy.deepcopy(st)))
    return out


def _scan_chain(loop: ast.For, seq):
    """table scan  `for T in <literal>: if C(T): S(T); break` [`else: E`]  ->  `if C(e1): S(e1) elif C(e2): S(e2) ... [else: E]`
    (the first matching row wins in both spellings; E runs when no row matched)"""
    if len(loop.body) != 1 or not isinstance(loop.body[0], ast.If) or loop.body[0].orelse:
        return None
    inner = loop.body[0]
    if not inner.body or not isinstance(inner.body[-1], ast.Break):
        return None
    rest = inner.body[:-1]
    if _top_level_jumps(rest):
        return None
    tg = loop.target
    names = _target_names(tg)
    if names is None:
        return None
    if set(names) & _stored(loop.body):
        return None
    # the loop variables must not be read after the loop (they would keep the matching row's values)
    chain = list(loop.orelse)
    for e in reversed(seq.elts):
        m = _destructure(tg, e)
        if m is None:
            return None
        if not all(_pure(v) for v in m.values()):
            return None
        test = _Subst(dict(m)).visit(copy.deepcopy(inner.test))
        body = [_Subst(dict(m)).visit(copy.deepcopy(st)) for st in rest] or [ast.Pass()]
        node = ast.If(test=test, body=body, orelse=chain)
        ast.copy_location(node, inner)
        chain = [node]
    return chain


class _StaticComps(ast.NodeTransformer):
    """Comprehensions / generator arguments over a STATIC sequence (a literal tuple / list, or a name known to be bound to one)
    written out, like unroll_static_loops does for statements:

        all(E(x) for x in (a, b))    ->  E(a) and E(b)                any(..) -> .. or ..
        tuple(E(x) for x in (a, b))  ->  (E(a), E(b))                 list(..) / [E(x) for x in (a, b)] -> [E(a), E(b)]
        sep.join(E(x) for x in (a, b)) -> sep.join([E(a), E(b)])

    (Dict / set comprehensions stay as they are: keying by the elements may merge equal ones, which rules about multiplicity read
    off the comprehension.)  One generator, no filter, plain-name targets, pure element expressions in the sequence.  (all/any yield the same truth value
    and evaluate the same operands in the same order, stopping at the same one.)"""

    def __init__(self, lits, attrs=None):
        self.lits = lits
        self.attrs = attrs          # (receiver, attribute) -> class-level literal table (see _attr_table)

    def _rows(self, comp, ifs: bool = False):
        """[{target name: element expr}] or None"""
        if len(comp.generators) != 1:
            return None
        g = comp.generators[0]
        if (g.ifs and not ifs) or g.is_async:
            return None
        seq = _literal_seq(g.iter) or (self.lits.get(g.iter.id) if isinstance(g.iter, ast.Name) else None)
        if seq is None and ifs:
            # (class-level tables only for the first-match form: a plain comprehension over one stays a comprehension, which is what the
            # rules about such lists read)
            seq = _attr_table(g.iter, self.attrs)
        if seq is None:
            return None
        tg = g.target
        if isinstance(tg, ast.Name):
            names = None
        elif isinstance(tg, (ast.Tuple, ast.List)) and all(isinstance(e, ast.Name) for e in tg.elts):
            names = [e.id for e in tg.elts]
        else:
            return None
        rows = []
        for e in seq.elts:
            if names is None:
                m = {tg.id: e}
            else:
                if not isinstance(e, (ast.Tuple, ast.List)) or len(e.elts) != len(names) or any(isinstance(x, ast.Starred) for x in e.elts):
                    return None
                m = dict(zip(names, e.elts))
            if not all(_pure(v, lambdas=True) for v in m.values()):
                return None
            rows.append(m)
        return rows

    def _elts(self, comp, *parts, ifs: bool = False):
        rows = self._rows(comp, ifs)
        if rows is None:
            return None
        # a name bound inside the element expression (walrus / nested comprehension target) that is also a loop target: refuse
        tnames = set(rows[0]) if rows else set()
        for p_ in parts:
            if any(isinstance(n, ast.NamedExpr) or (isinstance(n, ast.Name) and isinstance(n.ctx, ast.Store) and n.id in tnames) for n in ast.walk(p_)):
                return None
        return [[_Subst(dict(m)).visit(copy.deepcopy(p_)) for p_ in parts] for m in rows]

    def visit_ListComp(self, n):
        self.generic_visit(n)
        el = self._elts(n, n.elt)
        if el is None:
            return n
        return ast.copy_location(ast.List(elts=[e[0] for e in el], ctx=ast.Load()), n)

    def _first_match(self, n):
        """`next((E(x) for x in (a, b) if C(x)), D)`  ->  `E(a) if C(a) else (E(b) if C(b) else D)`: the first row that passes the
        filter decides, tried in table order, D when none does -- the same tests in the same order, stopping at the same row"""
        g = n.args[0]
        conds = g.generators[0].ifs if len(g.generators) == 1 else []
        if not conds:
            return None
        test = conds[0] if len(conds) == 1 else ast.BoolOp(op=ast.And(), values=list(conds))
        el = self._elts(g, g.elt, test, ifs=True)
        if not el or len(el) > 32:
            return None
        out = n.args[1]
        for e, c in reversed(el):
            out = ast.IfExp(test=c, body=e, orelse=out)
        return ast.fix_missing_locations(ast.copy_location(out, n))

    def visit_Call(self, n):
        self.generic_visit(n)
        if isinstance(n.func, ast.Name) and n.func.id == "next" and len(n.args) == 2 and not n.keywords and isinstance(n.args[0], ast.GeneratorExp) \
                and _pure(n.args[1]):
            return self._first_match(n) or n
        if n.keywords or len(n.args) != 1:
            return n
        a = n.args[0]
        f = n.func
        if isinstance(a, ast.GeneratorExp):
            el = self._elts(a, a.elt)
            elts = None if el is None else [e[0] for e in el]
        elif isinstance(a, ast.List) and not any(isinstance(e, ast.Starred) for e in a.elts):
            elts = list(a.elts)          # a list comprehension already written out
        else:
            return n
        if elts is None or not elts:
            return n
        if isinstance(f, ast.Name) and f.id in ("all", "any"):
            if len(elts) == 1:
                # all([a == b]) is a == b (a comparison already is a truth value); any other single operand stays (all(x) is bool(x), not x)
                return elts[0] if isinstance(elts[0], ast.Compare) else n
            return ast.copy_location(ast.BoolOp(op=ast.And() if f.id == "all" else ast.Or(), values=elts), n)
        if isinstance(f, ast.Name) and f.id == "tuple":
            return ast.copy_location(ast.Tuple(elts=elts, ctx=ast.Load()), n)
        if isinstance(f, ast.Name) and f.id == "list":
            return ast.copy_location(ast.List(elts=elts, ctx=ast.Load()), n)
        if isinstance(f, ast.Attribute) and f.attr == "join" and isinstance(a, ast.GeneratorExp):
            n.args = [ast.copy_location(ast.List(elts=elts, ctx=ast.Load()), a)]
        return n

    def visit_Subscript(self, n):
        # `T[k]` with T a local known to be bound to a static sequence whose k-th element is a constant -> that constant (the rows
        # `zip(<literal>, T)` was written out to pair the literal's elements with `T[0]`, `T[1]` .., see _zipped_literal; T may be the
        # running totals `accumulate(w for _, w in TABLE)` that fold_static evaluates)
        self.generic_visit(n)
        if isinstance(n.ctx, ast.Load) and isinstance(n.value, ast.Name) and n.value.id in self.lits and isinstance(n.slice, ast.Constant) \
                and type(n.slice.value) is int:
            seq = self.lits[n.value.id]
            if not isinstance(seq, _DictTable) and -len(seq.elts) <= n.slice.value < len(seq.elts) and isinstance(seq.elts[n.slice.value], ast.Constant):
                return ast.copy_location(copy.deepcopy(seq.elts[n.slice.value]), n)
        return n

    def visit_FunctionDef(self, n):
        return n            # nested functions are normalised on their own

    visit_AsyncFunctionDef = visit_ClassDef = visit_FunctionDef


def _static_comps(st, lits, attrs=None):
    """the expressions evaluated by statement `st` itself (not those of the statements nested in it), comprehensions over static
    sequences written out"""
    tr = _StaticComps(lits, attrs)
    if isinstance(st, (ast.FunctionDef, ast.AsyncFunctionDef, ast.ClassDef)):
        return st
    nested = {"body", "orelse", "finalbody", "handlers"}
    for fld, val in ast.iter_fields(st):
        if fld in nested:
            continue
        if isinstance(val, ast.AST):
            setattr(st, fld, tr.visit(val))
        elif isinstance(val, list):
            setattr(st, fld, [tr.visit(v) if isinstance(v, ast.AST) else v for v in val])
    return st


def _attr_table(node, attrs):
    """the class-level table read by `self.T` / `cls.T` / `<Class>.T` (attrs: {(receiver name, T): literal sequence}), or None"""
    if attrs and isinstance(node, ast.Attribute) and isinstance(node.value, ast.Name):
        return attrs.get((node.value.id, node.attr))
    return None


def _only_walked(stmts, name) -> bool:
    """is the local `name` read, in these statements, as the iterable of a `for` (itself or its .items() / .keys() / .values())?"""
    for st in stmts:
        for n in ast.walk(st):
            if isinstance(n, ast.For):
                it = n.iter
                if isinstance(it, ast.Call) and isinstance(it.func, ast.Attribute) and it.func.attr in ("items", "keys", "values") and not it.args and not it.keywords:
                    it = it.func.value
                if isinstance(it, ast.Name) and it.id == name:
                    return True
    return False


def _hoist_computed_entries(st: ast.Assign):
    """`T = {"a": f(), "b": x}` / `T = [("a", f()), ..]`  ->  [`_tvN = f()`], with the display (edited in place) holding `_tvN` instead: the
    entries that cannot be copied (calls, comprehensions) are evaluated once, in display order, before the display is built"""
    pre = []

    def fresh(e):
        nm = f"_tv{next(_counter)}"
        pre.append(ast.fix_missing_locations(ast.copy_location(ast.Assign(targets=[ast.Name(id=nm, ctx=ast.Store())], value=e), e)))
        return ast.copy_location(ast.Name(id=nm, ctx=ast.Load()), e)

    def entries(elts):
        for i, e in enumerate(elts):
            if e is None or _pure(e, lambdas=True):
                continue
            if isinstance(e, (ast.Tuple, ast.List)) and not any(isinstance(x, ast.Starred) for x in e.elts):
                entries(e.elts)
            elif not isinstance(e, ast.Starred):
                elts[i] = fresh(e)
    v = st.value
    if isinstance(v, ast.Dict):
        entries(v.values)
    else:
        entries(v.elts)
    return pre


def _unroll_block(stmts, lits, once=frozenset(), attrs=None, static: bool = False):
    """lits: name -> literal sequence node still valid at this point;  once: the locals read exactly once in the function (only
    those may stand for a one-shot zip / enumerate iterator);  attrs: (receiver, attribute) -> class-level literal table.
    static=True (fold_static): the sequence a loop walks / a local is bound to may also be a stdlib expression over literals (zip,
    enumerate, accumulate, comprehension ... see _static_seq)"""
    out = []
    lits = dict(lits)
    for st in stmts:
        st = _static_comps(st, lits, attrs)
        if isinstance(st, ast.For):
            seq, local = _iterated(st.iter, lits, attrs) or (None, None)
            if seq is None and static:
                seq = _static_seq(st.iter, lits)
            if seq is not None:
                body_st = _stored(st.body)
                free = set().union(*[_loaded(e) for e in seq.elts]) if seq.elts else set()
                if not (free & body_st) and not (local is not None and local in body_st) and not (static and _loaded(st.iter) & body_st):
                    after = stmts[stmts.index(st) + 1:]
                    tnames = {n.id for n in ast.walk(st.target) if isinstance(n, ast.Name)}
                    un = _scan_chain(st, seq) if not (tnames & set().union(*[_loaded(a) for a in after], set())) else None
                    if un is None:
                        un = _unroll_one(st, seq)
                    if un is not None:
                        un = _unroll_block(un, lits, once, attrs, static)
                        for u in un:
                            ast.fix_missing_locations(u)
                        out.extend(un)
                        continue
        # recurse into compound statements with the literals that survive the whole statement
        inner_st = _stored([st])
        surviving = {k: v for k, v in lits.items() if k not in inner_st and not (set().union(*[_loaded(e) for e in v.elts]) & inner_st)}
        for fld in ("body", "orelse", "finalbody"):
            b = getattr(st, fld, None)
            if isinstance(b, list) and b and isinstance(b[0], ast.stmt) and not isinstance(st, (ast.FunctionDef, ast.ClassDef, ast.AsyncFunctionDef)):
                setattr(st, fld, _unroll_block(b, surviving, once, attrs, static))
        if isinstance(st, ast.Try):
            for h in st.handlers:
                h.body = _unroll_block(h.body, surviving, once, attrs, static)
        # update the table
        for k in list(lits):
            if k in inner_st or (set().union(*[_loaded(e) for e in lits[k].elts]) & inner_st):
                del lits[k]
        if isinstance(st, ast.Assign) and len(st.targets) == 1 and isinstance(st.targets[0], ast.Name):
            # a local bound to a literal table, or to a class-level / local table under another name (`rows = self._ROWS`); a
            # zip / enumerate of literals is a one-shot iterator: the local stands for its rows only where it is read once
            seq = _literal_table(st.value) or _attr_table(st.value, attrs) or (lits.get(st.value.id) if isinstance(st.value, ast.Name) else None)
            if seq is not None and isinstance(st.value, (ast.Dict, ast.List, ast.Tuple)) and st.targets[0].id in once \
                    and not all(_pure(e, lambdas=True) for e in seq.elts) and _only_walked(stmts[stmts.index(st) + 1:], st.targets[0].id):
                # a display with computed entries (`{"n": len(xs), "t": now()}`) whose only use is a later `for` over it: the computed
                # entries are bound to fresh locals first, in the order the display evaluates them -- the same values, evaluated once at
                # the same place, and the display holds names only, so the loop over it can be unrolled like one over a literal table
                out.extend(_hoist_computed_entries(st))
                seq = _literal_table(st.value)
            oneshot = isinstance(st.value, ast.Call) and not static
            if seq is None and static:
                seq = _static_seq(st.value, lits)
            if seq is not None and all(_pure(e, lambdas=True) for e in seq.elts) and st.targets[0].id not in set().union(*[_loaded(e) for e in seq.elts], set()) \
                    and (not oneshot or st.targets[0].id in once):
                lits[st.targets[0].id] = seq
                if static and isinstance(st.value, ast.ListComp):
                    # a list comprehension over a literal table IS the list of its substituted elements
                    st.value = ast.fix_missing_locations(ast.copy_location(ast.List(elts=[copy.deepcopy(e) for e in seq.elts], ctx=ast.Load()), st.value))
        out.append(st)
    return out


def module_tables(mod: ast.Module) -> dict:
    """name -> literal tuple/list bound exactly once at module level, never re-bound (`global`) or mutated anywhere in the
    module, whose elements are pure: usable like a local literal by unroll_static_loops"""
    cand, count = {}, {}
    # NamedTuple classes of the module, defined once at its top level and never re-bound
    defs = [st.name for st in mod.body if isinstance(st, (ast.ClassDef, ast.FunctionDef, ast.AsyncFunctionDef))]
    rebound = {n.id for n in ast.walk(mod) if isinstance(n, ast.Name) and isinstance(n.ctx, (ast.Store, ast.Del))}
    rectypes = {st.name for st in mod.body if isinstance(st, ast.ClassDef) and [ast.unparse(b) for b in st.bases] in (["NamedTuple"], ["typing.NamedTuple"])
                and not st.decorator_list and not st.keywords and defs.count(st.name) == 1 and st.name not in rebound}
    for st in mod.body:
        for n in ast.walk(st) if not isinstance(st, (ast.FunctionDef, ast.AsyncFunctionDef, ast.ClassDef)) else []:
            if isinstance(n, ast.Name) and isinstance(n.ctx, (ast.Store, ast.Del)):
                count[n.id] = count.get(n.id, 0) + 1
        if isinstance(st, ast.Assign) and len(st.targets) == 1 and isinstance(st.targets[0], ast.Name) and isinstance(st.value, (ast.Tuple, ast.List, ast.Dict)):
            seq = _literal_table(st.value)
            if seq is not None and rectypes:
                # rows built by calling a NamedTuple class of the module that has methods (namedtuple_rows leaves those calls in place):
                # constructing the row runs nothing but tuple.__new__, so the row can be copied like a display
                for c in ast.walk(st.value):
                    if isinstance(c, ast.Call) and isinstance(c.func, ast.Name) and c.func.id in rectypes and not any(isinstance(a, ast.Starred) for a in c.args) \
                            and all(k.arg for k in c.keywords):
                        c._sa_record_row = True
            if seq is not None and all(_pure(e) for e in seq.elts):
                cand[st.targets[0].id] = seq
    if not cand:
        return {}
    bad = set()
    for n in ast.walk(mod):
        if isinstance(n, (ast.Global, ast.Nonlocal)):
            bad |= set(n.names)
        elif isinstance(n, ast.Call) and isinstance(n.func, ast.Attribute) and isinstance(n.func.value, ast.Name) and n.func.attr in MUTATORS:
            bad.add(n.func.value.id)
        elif isinstance(n, (ast.Assign, ast.AugAssign, ast.Delete)):
            for t in (n.targets if isinstance(n, (ast.Assign, ast.Delete)) else [n.target]):
                if isinstance(t, ast.Subscript) and isinstance(t.value, ast.Name):
                    bad.add(t.value.id)
                if isinstance(n, ast.AugAssign) and isinstance(t, ast.Name):
                    bad.add(t.id)
    return {k: v for k, v in cand.items() if count.get(k, 0) == 1 and k not in bad
            and not (set().union(*[_loaded(e) for e in v.elts]) & set(cand))}


def class_tables(cls: ast.ClassDef, mod: ast.Module | None = None) -> dict:
    """attribute name -> literal tuple/list bound exactly once in the class body (pure elements that mention no name bound in the
    class body), which nothing in the module re-binds or mutates through an attribute access (`x.T = ..`, `x.T[i] = ..`,
    `x.T.append(..)`, `del x.T`, setattr/delattr with that name or a computed name on anything): a loop `for a, b in self.T`
    inside a method of the class is as static as one over a local literal (unroll_static_loops).  A subclass that overrides T in
    ANOTHER module is not seen -- the methods are then analysed for the class that defines them."""
    cand, count = {}, {}
    body_names = set()
    for st in cls.body:
        if isinstance(st, (ast.FunctionDef, ast.AsyncFunctionDef, ast.ClassDef)):
            body_names.add(st.name)
            continue
        for n in ast.walk(st):
            if isinstance(n, ast.Name) and isinstance(n.ctx, (ast.Store, ast.Del)):
                count[n.id] = count.get(n.id, 0) + 1
                body_names.add(n.id)
        tgt = st.targets[0] if isinstance(st, ast.Assign) and len(st.targets) == 1 else st.target if isinstance(st, ast.AnnAssign) and st.value is not None else None
        if isinstance(tgt, ast.Name) and isinstance(st.value, (ast.Tuple, ast.List, ast.Dict)):
            seq = _literal_table(st.value)
            if seq is not None and all(_pure(e) for e in seq.elts):
                cand[tgt.id] = seq
    cand = {k: v for k, v in cand.items() if count.get(k, 0) == 1 and not (set().union(*[_loaded(e) for e in v.elts]) & body_names)}
    if not cand:
        return {}
    bad, via = set(), set()
    for n in ast.walk(mod if mod is not None else cls):
        if isinstance(n, ast.Attribute) and isinstance(n.ctx, (ast.Store, ast.Del)):
            bad.add(n.attr)
        elif isinstance(n, ast.Call) and isinstance(n.func, ast.Attribute) and isinstance(n.func.value, ast.Attribute) and n.func.attr in MUTATORS:
            bad.add(n.func.value.attr)
        elif isinstance(n, ast.Subscript) and isinstance(n.ctx, (ast.Store, ast.Del)) and isinstance(n.value, ast.Attribute):
            bad.add(n.value.attr)
        elif isinstance(n, ast.Call) and isinstance(n.func, ast.Name) and n.func.id in ("setattr", "delattr") and len(n.args) >= 2:
            names = _const_choices(n.args[1], cls, mod)
            if names is None:
                return {}                 # an attribute name that is computed: anything may be re-bound
            bad |= names[0]
            via |= names[1]
        elif isinstance(n, ast.ClassDef) and n is not cls:
            # a subclass in the same module that re-defines the attribute: `self.T` depends on the instance's class
            for st in n.body:
                for t in (st.targets if isinstance(st, ast.Assign) else [st.target] if isinstance(st, (ast.AnnAssign, ast.AugAssign)) else []):
                    if isinstance(t, ast.Name):
                        bad.add(t.id)
    if via & bad:
        return {}                         # the table an attribute name is looked up in is itself re-bound / mutated
    return {k: v for k, v in cand.items() if k not in bad}


def _const_choices(node, cls: ast.ClassDef, mod):
    """the finite set of strings an attribute-name expression can evaluate to: a literal, or a lookup `T[k]` / `T.get(k)` in a
    class-level dict display `T` (read as self.T / cls.T / <Class>.T) whose values are all string literals.
    -> (names, {T}) or None when the expression is anything else"""
    if isinstance(node, ast.Constant):
        return ({node.value}, set()) if isinstance(node.value, str) else None
    tab = None
    if isinstance(node, ast.Subscript):
        tab = node.value
    elif isinstance(node, ast.Call) and isinstance(node.func, ast.Attribute) and node.func.attr == "get" and len(node.args) == 1 and not node.keywords:
        tab = node.func.value
    if tab is None:
        return None
    name = tab.attr if isinstance(tab, ast.Attribute) and isinstance(tab.value, ast.Name) else None
    if name is None:
        return None
    defs = [st.value for st in cls.body if isinstance(st, ast.Assign) and any(isinstance(t, ast.Name) and t.id == name for t in st.targets)]
    if len(defs) != 1 or not isinstance(defs[0], ast.Dict) or not defs[0].values \
            or not all(isinstance(v, ast.Constant) and isinstance(v.value, str) for v in defs[0].values):
        return None
    return {v.value for v in defs[0].values}, {name}


def unroll_static_loops(func, tables: dict | None = None, ctables: dict | None = None, cname: str | None = None):
    """ctables: class-level literal tables (class_tables) of the class `cname` whose method `func` is"""
    lits = {}
    if tables:
        # a module-level table is visible unless the function binds the name itself (parameter, local, nested def); a class-level
        # one ('self.NAME') unless the function re-binds the receiver or has it as a parameter other than the first
        a = func.args
        params = [p.arg for p in a.posonlyargs + a.args + a.kwonlyargs]
        own = set(params) | ({a.vararg.arg} if a.vararg else set()) | ({a.kwarg.arg} if a.kwarg else set()) \
            | _stored(func.body)
        lits = {k: v for k, v in tables.items() if k not in own and not (set().union(*[_loaded(e) for e in v.elts]) & own)}
    attrs = {}
    if ctables:
        a = func.args
        params = [p.arg for p in a.posonlyargs + a.args]
        decs = {ast.unparse(d) for d in func.decorator_list}
        bound = {p.arg for p in a.posonlyargs + a.args + a.kwonlyargs} | ({a.vararg.arg} if a.vararg else set()) | ({a.kwarg.arg} if a.kwarg else set()) \
            | _stored(func.body)
        recvs = set()
        if params and "staticmethod" not in decs and params[0] not in _stored(func.body):
            recvs.add(params[0])            # self / cls
        if cname and cname not in bound:
            recvs.add(cname)
        for k, v in ctables.items():
            if not (set().union(*[_loaded(e) for e in v.elts]) & bound):
                for r in recvs:
                    attrs[(r, k)] = v
    reads = {}
    for n in ast.walk(func):
        if isinstance(n, ast.Name) and isinstance(n.ctx, ast.Load):
            reads[n.id] = reads.get(n.id, 0) + 1
    func.body = _unroll_block(func.body, lits, frozenset(k for k, c in reads.items() if c == 1), attrs)
    # an f-string whose holes were all replaced by string / integer constants (f"num_of_{'species'}" after unrolling a loop over a
    # literal table) is the constant it prints
    func.body = [_ConstFStr().visit(st) for st in func.body]
    return func


class _ConstFStr(ast.NodeTransformer):
    def visit_JoinedStr(self, n):
        self.generic_visit(n)
        parts = []
        for v in n.values:
            if isinstance(v, ast.Constant) and isinstance(v.value, str):
                parts.append(v.value)
            elif isinstance(v, ast.FormattedValue) and v.format_spec is None and v.conversion == -1 and isinstance(v.value, ast.Constant) \
                    and (isinstance(v.value.value, str) or type(v.value.value) is int):
                parts.append(str(v.value.value))
            else:
                return n
        return ast.copy_location(ast.Constant(value="".join(parts)), n)


# ------------------------------------------------------------------------------------------------------------ call inlining

def _simple_callee(callee) -> str | None:
    """'expr' (body is one return), 'stmts' (straight-line top level, at most one trailing return), or None"""
    if not isinstance(callee, (ast.FunctionDef,)):
        return None
    a = callee.args
    if a.vararg or a.kwarg or a.posonlyargs:
        return None
    for n in ast.walk(callee):
        if isinstance(n, (ast.Yield, ast.YieldFrom, ast.Global, ast.Nonlocal, ast.Await)):
            return None
    body = [s for s in callee.body if not (isinstance(s, ast.Expr) and isinstance(s.value, ast.Constant))]
    if not body:
        return None
    if len(body) == 1 and isinstance(body[0], ast.Return) and body[0].value is not None:
        return "expr"
    for s in body[:-1]:
        if any(isinstance(n, ast.Return) for n in ast.walk(s) if not isinstance(n, (ast.FunctionDef, ast.Lambda))):
            return None
    last = body[-1]
    if not isinstance(last, ast.Return) and any(isinstance(n, ast.Return) for n in ast.walk(last)):
        return None
    return "stmts"


def _bind_args(callee, call, skip_first: bool):
    """param -> argument expression (defaults filled in) or None"""
    if any(isinstance(x, ast.Starred) for x in call.args) or any(k.arg is None for k in call.keywords):
        return None
    params = [p.arg for p in callee.args.args]
    if skip_first:
        if not params:
            return None
        params = params[1:]
    kwonly = [p.arg for p in callee.args.kwonlyargs]
    if len(call.args) > len(params):
        return None
    given = dict(zip(params, call.args))
    for k in call.keywords:
        if k.arg in given or k.arg not in params + kwonly:
            return None
        given[k.arg] = k.value
    defaults = dict(zip(params[len(params) - len(callee.args.defaults):], callee.args.defaults))
    defaults.update({p: d for p, d in zip(kwonly, callee.args.kw_defaults) if d is not None})
    for p in params + kwonly:
        if p not in given:
            if p not in defaults:
                return None
            given[p] = defaults[p]
    return given


def _callee_body(callee):
    return [s for s in callee.body if not (isinstance(s, ast.Expr) and isinstance(s.value, ast.Constant))]


def inline_expr(callee, call, recv=None):
    """expression equal to `call` for an 'expr' callee, or None"""
    decs = {ast.unparse(d) for d in callee.decorator_list}
    if decs - {"staticmethod", "classmethod"}:
        return None
    skip = recv is not None and "staticmethod" not in decs
    given = _bind_args(callee, call, skip)
    if given is None:
        return None
    body = _callee_body(callee)
    m = dict(given)
    if skip:
        m[callee.args.args[0].arg] = recv
    ret = copy.deepcopy(body[0].value)
    # an argument that is not a plain name / constant / attribute chain and is used more than once would be duplicated
    uses = {}
    for n in ast.walk(ret):
        if isinstance(n, ast.Name) and isinstance(n.ctx, ast.Load):
            uses[n.id] = uses.get(n.id, 0) + 1
    for p, e in m.items():
        if uses.get(p, 0) > 1 and not _pure(e):
            return None
    return _Subst(m).visit(ret)


def inline_stmts(callee, call, recv=None):
    """(statements, return expression | None) equal to executing `call`, or None"""
    decs = {ast.unparse(d) for d in callee.decorator_list}
    if decs - {"staticmethod", "classmethod"}:
        return None
    skip = recv is not None and "staticmethod" not in decs
    given = _bind_args(callee, call, skip)
    if given is None:
        return None
    k = next(_counter)
    ren = {}
    pre = []
    cls_expr = None
    if skip:
        if isinstance(recv, ast.Name):
            ren[callee.args.args[0].arg] = recv.id
        elif _pure(recv):
            # a receiver reached through a pure attribute chain (`ode.jac.pattern()`): bound to a fresh local first
            fresh = f"_inl{k}_{callee.args.args[0].arg}"
            ren[callee.args.args[0].arg] = fresh
            if "classmethod" in decs:
                # `cls` of a classmethod called on the class itself (`self.Record.from_rows(..)`): the class expression stays in place
                # of `cls`, so that `cls(..)` reads as the constructor call it is
                cls_expr = (fresh, copy.deepcopy(recv))
            else:
                pre.append(ast.Assign(targets=[ast.Name(id=fresh, ctx=ast.Store())], value=copy.deepcopy(recv)))
        else:
            return None
    body = copy.deepcopy(_callee_body(callee))
    # a parameter that the callee only edits IN PLACE (p[i] = .., p.append(..)) is the caller's object under another name: it is
    # renamed to the argument, so that the edits are seen on the caller's variable; only a parameter the callee re-binds needs a
    # local of its own
    stored = {n.id for b in body for n in ast.walk(b) if isinstance(n, ast.Name) and isinstance(n.ctx, (ast.Store, ast.Del))}
    for p, e in given.items():
        if isinstance(e, ast.Name) and p not in stored:
            ren[p] = e.id
        else:
            fresh = f"_inl{k}_{p}"
            ren[p] = fresh
            pre.append(ast.Assign(targets=[ast.Name(id=fresh, ctx=ast.Store())], value=copy.deepcopy(e)))
    locals_ = {n.id for b in body for n in ast.walk(b) if isinstance(n, ast.Name) and isinstance(n.ctx, ast.Store)} - set(ren)
    for l in locals_:
        ren[l] = f"_inl{k}_{l}"
    ret = None
    if body and isinstance(body[-1], ast.Return):
        ret = body[-1].value
        body = body[:-1]
    body = [_Rename(ren).visit(b) for b in body]
    if ret is not None:
        ret = _Rename(ren).visit(ret)
    if cls_expr is not None:
        body = [_Subst({cls_expr[0]: cls_expr[1]}).visit(b) for b in body]
        if ret is not None:
            ret = _Subst({cls_expr[0]: cls_expr[1]}).visit(ret)
    return pre + body, ret


def _own_level(stmts, kinds) -> bool:
    """is there a statement of one of `kinds` (Break / Continue) that belongs to the loop whose body `stmts` is?"""
    def rec(node):
        for ch in ast.iter_child_nodes(node):
            if isinstance(ch, kinds):
                return True
            if isinstance(ch, (ast.For, ast.While, ast.FunctionDef, ast.AsyncFunctionDef, ast.Lambda, ast.ClassDef)):
                if any(isinstance(x, kinds) for s in getattr(ch, "orelse", []) for x in ast.walk(s)):
                    return True
                continue
            if rec(ch):
                return True
        return False
    return any(isinstance(s, kinds) or rec(s) for s in stmts)


def inline_generator_loop(callee, loop: ast.For, recv=None):
    """`for T in gen(args): BODY` with `gen` a generator function that has exactly one `yield E` statement  ->  the statements of `gen`
    (parameters renamed to the arguments, locals made unique, as inline_stmts does) with that statement replaced by `T = E; BODY`.
    A generator runs interleaved with its consumer: the consumer's body executes exactly where the `yield` stands, once per value, so
    the loop nest of the producer with the consumer's body inside is the same computation in the same order.  Refused (-> None) when
    the equivalence needs more than that: several yields / yield from / return in the producer, a yield inside try / with, a
    `break` or `else` on the consumer loop, or a consumer `continue` where the yield is not the last statement of the producer's
    innermost loop."""
    if not isinstance(callee, ast.FunctionDef) or loop.orelse or not isinstance(loop.iter, ast.Call):
        return None
    a = callee.args
    if a.vararg or a.kwarg or a.posonlyargs:
        return None
    own = []

    def scan(node, inside):
        """-> False when the producer has a shape that is not handled"""
        for ch in ast.iter_child_nodes(node):
            if isinstance(ch, (ast.FunctionDef, ast.AsyncFunctionDef, ast.Lambda, ast.ClassDef)):
                continue
            if isinstance(ch, (ast.YieldFrom, ast.Await, ast.Global, ast.Nonlocal, ast.Return)):
                return False
            if isinstance(ch, ast.Yield):
                own.append((ch, inside))
            if not scan(ch, inside or isinstance(ch, (ast.Try, ast.With, ast.AsyncWith))):
                return False
        return True
    if not scan(callee, False) or len(own) != 1 or own[0][1] or own[0][0].value is None:
        return None
    if _own_level(loop.body, (ast.Break,)):
        return None
    res = inline_stmts(callee, loop.iter, recv)
    if res is None:
        return None
    body, ret = res
    # the yield must be a whole statement; find the list that holds it
    holder = []

    def find(stmts, in_loop_tail):
        for i, st in enumerate(stmts):
            if isinstance(st, ast.Expr) and isinstance(st.value, ast.Yield):
                holder.append((stmts, i, in_loop_tail and i == len(stmts) - 1))
                continue
            for fld in ("body", "orelse", "finalbody"):
                b = getattr(st, fld, None)
                if isinstance(b, list) and b and isinstance(b[0], ast.stmt) and not isinstance(st, (ast.FunctionDef, ast.ClassDef, ast.AsyncFunctionDef)):
                    find(b, fld == "body" and isinstance(st, (ast.For, ast.While)))
    find(body, False)
    if len(holder) != 1:
        return None                       # the yield is an operand (`x = yield e`): not a plain producer
    stmts, i, last_in_loop = holder[0]
    if _own_level(loop.body, (ast.Continue,)) and not last_in_loop:
        return None
    bind = ast.Assign(targets=[loop.target], value=stmts[i].value.value)
    ast.copy_location(bind, loop)
    stmts[i:i + 1] = [bind] + list(loop.body)
    for b in body:
        ast.fix_missing_locations(b)
    return body


def inline_stmt_calls(func, resolve, max_depth: int = 3):
    """resolve(call) -> (callee FunctionDef, receiver expr | None) | None.  Whole-statement calls are replaced by the callee's
    statements."""
    def value_of(st):
        if isinstance(st, ast.Expr):
            return st.value
        if isinstance(st, (ast.Assign, ast.AugAssign, ast.Return)):
            return st.value
        if isinstance(st, ast.AnnAssign):
            return st.value
        return None

    def expand(stmts, depth):
        out = []
        for st in stmts:
            for fld in ("body", "orelse", "finalbody"):
                b = getattr(st, fld, None)
                if isinstance(b, list) and b and isinstance(b[0], ast.stmt) and not isinstance(st, (ast.FunctionDef, ast.ClassDef, ast.AsyncFunctionDef)):
                    setattr(st, fld, expand(b, depth))
            if isinstance(st, ast.Try):
                for h in st.handlers:
                    h.body = expand(h.body, depth)
            if isinstance(st, ast.For) and isinstance(st.iter, ast.Call) and depth < max_depth:
                # a loop over a generator helper: the producer's statements with the consumer's body where the yield stands
                r = resolve(st.iter)
                if r is not None and r[0] is not func:
                    new = inline_generator_loop(r[0], st, r[1])
                    if new is not None:
                        for b in new:
                            ast.copy_location(b, st) if not hasattr(b, "lineno") else None
                        out.extend(expand(new, depth + 1))
                        continue
            if isinstance(st, ast.For) and depth < max_depth:
                # a loop over the list a statement helper builds and returns (`for col, t in self._partials(..):`, also inside
                # enumerate / zip): the iterable is evaluated once, before the loop -- the helper's statements go in front of it
                is_stmts = lambda c_: (lambda r_: r_ is not None and r_[0] is not func and _simple_callee(r_[0]) == "stmts")(resolve(c_))
                hit = st.iter if isinstance(st.iter, ast.Call) and is_stmts(st.iter) and all(_pure(a) for a in st.iter.args) \
                    and all(_pure(k.value) for k in st.iter.keywords) else _first_nested_call(st.iter, is_stmts)
                if hit is not None:
                    callee, recv = resolve(hit)
                    res = inline_stmts(callee, hit, recv)
                    if res is not None and res[1] is not None:
                        body, ret = res
                        st.iter = ret if hit is st.iter else _ReplaceNode(hit, ret).visit(st.iter)
                        for b in body:
                            ast.copy_location(b, st) if not hasattr(b, "lineno") else None
                            ast.fix_missing_locations(b)
                        ast.fix_missing_locations(st)
                        out.extend(expand(body, depth + 1))
                        out.append(st)
                        continue
            c = value_of(st)
            if isinstance(c, ast.Call) and depth < max_depth:
                r = resolve(c)
                if r is not None and r[0] is not func:
                    callee, recv = r
                    kind = _simple_callee(callee)
                    if kind is None and isinstance(st, ast.Expr) and isinstance(callee, ast.FunctionDef):
                        # a PROCEDURE with guard clauses (`if nothing_to_do: return` .. work): the same statements with the guard
                        # clauses turned into if / else arms (_tailify) are straight-line and can be put back
                        c2 = _procedure_without_early_returns(callee)
                        if c2 is not callee and _simple_callee(c2) == "stmts":
                            callee, kind = c2, "stmts"
                    if kind == "expr":
                        e = inline_expr(callee, c, recv)
                        if e is not None:
                            st.value = e
                            ast.fix_missing_locations(st)
                            out.extend(expand([st], depth + 1))
                            continue
                    elif kind == "stmts":
                        res = inline_stmts(callee, c, recv)
                        if res is not None:
                            body, ret = res
                            new = list(body)
                            if isinstance(st, ast.Expr):
                                pass          # a value returned and ignored
                            elif ret is None:
                                st.value = ast.Constant(value=None)
                                new.append(st)
                            else:
                                st.value = ret
                                new.append(st)
                            for b in new:
                                ast.copy_location(b, st) if not hasattr(b, "lineno") else None
                                ast.fix_missing_locations(b)
                            out.extend(expand(new, depth + 1))
                            continue
            # a straight-line helper called INSIDE the statement's expression (`return f(g(a))`, `x = "(" + g(a) + ")"`): its
            # statements are hoisted in front of the statement and the call is replaced by the returned expression, provided
            # nothing with a possible effect is evaluated before the call in that expression
            v = value_of(st)
            if v is not None and depth < max_depth and not isinstance(st, ast.AugAssign):
                hit = _first_nested_call(v, lambda c_: (lambda r_: r_ is not None and r_[0] is not func and _simple_callee(r_[0]) == "stmts")(resolve(c_)))
                if hit is not None:
                    callee, recv = resolve(hit)
                    res = inline_stmts(callee, hit, recv)
                    if res is not None and res[1] is not None:
                        body, ret = res
                        st.value = _ReplaceNode(hit, ret).visit(v)
                        new = list(body) + [st]
                        for b in new:
                            ast.copy_location(b, st) if not hasattr(b, "lineno") else None
                            ast.fix_missing_locations(b)
                        out.extend(expand(new, depth + 1))
                        continue
            out.append(st)
        return out
    func.body = expand(func.body, 0)
    return func


# ------------------------------------------------------------------------------------- guard helpers (stages that report success)

def _has_return(node) -> bool:
    """a `return` that belongs to the function `node` is a statement of (not to a def / lambda nested in it)"""
    todo = [node]
    while todo:
        n = todo.pop()
        if isinstance(n, ast.Return):
            return True
        for ch in ast.iter_child_nodes(n):
            if not isinstance(ch, (ast.FunctionDef, ast.AsyncFunctionDef, ast.Lambda, ast.ClassDef)):
                todo.append(ch)
    return False


def _tailify(stmts, budget=None):
    """The statement list with every `return` moved into tail position: the statements that follow an `if` with a returning arm are
    pushed into its arms that fall through (`if c: ..; return X` + REST  ->  `if c: ..; return X  else: REST`).  None when a return
    sits inside a loop / with / try (not a decision tree) or the result would grow unreasonably."""
    budget = budget if budget is not None else [400]
    out = []
    for i, st in enumerate(stmts):
        if isinstance(st, ast.Return):
            return out + [st]                      # what follows is dead
        if isinstance(st, ast.If) and _has_return(st):
            rest = stmts[i + 1:]
            arms = []
            for arm in (st.body, st.orelse):
                falls = not (arm and isinstance(arm[-1], (ast.Return, ast.Raise)))
                ext = list(arm) + ([copy.deepcopy(r) for r in rest] if falls else [])
                budget[0] -= sum(1 for r in rest for _ in ast.walk(r)) if falls else 0
                if budget[0] < 0:
                    return None
                t = _tailify(ext, budget)
                if t is None:
                    return None
                arms.append(t)
            new = ast.If(test=st.test, body=arms[0] or [ast.Pass()], orelse=arms[1])
            return out + [ast.copy_location(new, st)]
        if _has_return(st):
            return None
        out.append(st)
    return out


def _guard_helper(callee) -> bool:
    """a helper that reports how it went: every return gives a literal constant (True / False / None ..), no generators / *args"""
    if not isinstance(callee, ast.FunctionDef):
        return False
    a = callee.args
    if a.vararg or a.kwarg or a.posonlyargs:
        return False
    rets = []
    todo = list(callee.body)
    while todo:
        n = todo.pop()
        if isinstance(n, (ast.Yield, ast.YieldFrom, ast.Global, ast.Nonlocal, ast.Await)):
            return False
        if isinstance(n, ast.Return):
            rets.append(n)
        for ch in ast.iter_child_nodes(n):
            if not isinstance(ch, (ast.FunctionDef, ast.AsyncFunctionDef, ast.Lambda, ast.ClassDef)):
                todo.append(ch)
    return bool(rets) and all(r.value is None or isinstance(r.value, ast.Constant) for r in rets) \
        and len({bool(r.value.value) if r.value is not None else False for r in rets}) == 2


def inline_guard_calls(func, resolve, max_depth: int = 2):
    """Stage helpers.  `if [not] self._stage(a): A [else: B]` where the helper ends every path with `return <constant>` is the helper's
    decision tree with A put where it returns a value that makes the test true and B (or nothing: control falls through to the
    statements after the `if`) where it makes it false:

        if not self._write_file(path):          target = path / "f"                     (helper body, parameters bound)
            return                        ->    if exists(target): warn(); return       (`return False` -> A)
        <next stage>                            else: write(target)                     (`return True`  -> fall through)
                                                <next stage>

    Early returns of the helper are first moved into tail position (_tailify).  Helpers with a return inside a loop / with / try
    stay calls."""
    def expand(stmts, depth):
        out = []
        for st in stmts:
            for fld in ("body", "orelse", "finalbody"):
                b = getattr(st, fld, None)
                if isinstance(b, list) and b and isinstance(b[0], ast.stmt) and not isinstance(st, (ast.FunctionDef, ast.ClassDef, ast.AsyncFunctionDef)):
                    setattr(st, fld, expand(b, depth))
            if isinstance(st, ast.Try):
                for h in st.handlers:
                    h.body = expand(h.body, depth)
            if isinstance(st, ast.If) and depth < max_depth:
                neg = isinstance(st.test, ast.UnaryOp) and isinstance(st.test.op, ast.Not)
                call = st.test.operand if neg else st.test
                r = resolve(call) if isinstance(call, ast.Call) else None
                if r is not None and r[0] is not func and _guard_helper(r[0]):
                    res = _renamed_body(r[0], call, r[1])
                    tail = _tailify(res[1] + [ast.Return(value=ast.Constant(value=None))]) if res is not None else None
                    if tail is not None:
                        def put(ss):
                            new = []
                            for s_ in ss:
                                if isinstance(s_, ast.Return):
                                    truth = bool(s_.value.value) if s_.value is not None else False
                                    new.extend(copy.deepcopy(x) for x in (st.body if truth != neg else st.orelse))
                                elif isinstance(s_, ast.If):
                                    s_.body = put(s_.body) or [ast.Pass()]
                                    s_.orelse = put(s_.orelse)
                                    new.append(s_)
                                else:
                                    new.append(s_)
                            return new
                        body = res[0] + put(tail)
                        for b in body:
                            ast.copy_location(b, st) if not hasattr(b, "lineno") else None
                            ast.fix_missing_locations(b)
                        out.extend(expand(body, depth + 1))
                        continue
            out.append(st)
        return out
    func.body = expand(func.body, 0)
    return func


def _renamed_body(callee, call, recv=None):
    """(argument bindings, the callee's statements -- returns kept -- with parameters renamed to the arguments and locals made
    unique), as inline_stmts does for helpers with one trailing return; None when the call cannot be bound"""
    decs = {ast.unparse(d) for d in callee.decorator_list}
    if decs - {"staticmethod", "classmethod"}:
        return None
    skip = recv is not None and "staticmethod" not in decs
    given = _bind_args(callee, call, skip)
    if given is None:
        return None
    k = next(_counter)
    ren, pre = {}, []
    if skip:
        if isinstance(recv, ast.Name):
            ren[callee.args.args[0].arg] = recv.id
        elif _pure(recv):
            fresh = f"_inl{k}_{callee.args.args[0].arg}"
            ren[callee.args.args[0].arg] = fresh
            pre.append(ast.Assign(targets=[ast.Name(id=fresh, ctx=ast.Store())], value=copy.deepcopy(recv)))
        else:
            return None
    body = copy.deepcopy(_callee_body(callee))
    stored = {n.id for b in body for n in ast.walk(b) if isinstance(n, ast.Name) and isinstance(n.ctx, (ast.Store, ast.Del))}
    for p, e in given.items():
        if isinstance(e, ast.Name) and p not in stored:
            ren[p] = e.id
        else:
            fresh = f"_inl{k}_{p}"
            ren[p] = fresh
            pre.append(ast.Assign(targets=[ast.Name(id=fresh, ctx=ast.Store())], value=copy.deepcopy(e)))
    for l in {n.id for b in body for n in ast.walk(b) if isinstance(n, ast.Name) and isinstance(n.ctx, ast.Store)} - set(ren):
        ren[l] = f"_inl{k}_{l}"
    return pre, [_Rename(ren).visit(b) for b in body]


class _ReplaceNode(ast.NodeTransformer):
    def __init__(self, old, new):
        self.old, self.new = old, new

    def visit(self, n):
        if n is self.old:
            return self.new
        return self.generic_visit(n)


def _first_nested_call(expr, wanted):
    """the first call (in evaluation order) inside `expr` for which wanted(call) holds, reached only through operands that are
    always evaluated (call arguments, operators, attribute/subscript bases, displays, f-string fields) and with nothing but
    pure sub-expressions evaluated before it; None otherwise"""
    def rec(n):
        """-> (hit | None, pure_so_far)"""
        if isinstance(n, ast.Call) and wanted(n) and n is not expr:
            if all(_pure(a) for a in n.args) and all(_pure(k.value) for k in n.keywords) and _pure(n.func):
                return n, True
            return None, False
        if isinstance(n, (ast.Call, ast.BinOp, ast.UnaryOp, ast.Attribute, ast.Subscript, ast.Tuple, ast.List, ast.Set, ast.JoinedStr, ast.FormattedValue,
                          ast.Starred, ast.keyword, ast.Compare, ast.Slice, ast.Index if hasattr(ast, "Index") else ast.Slice)):
            for ch in ast.iter_child_nodes(n):
                if isinstance(ch, (ast.expr_context, ast.operator, ast.unaryop, ast.cmpop)):
                    continue
                h, pure = rec(ch)
                if h is not None:
                    return h, True
                if not pure:
                    return None, False
            # the node itself: a call evaluated after its operands has an effect for whatever follows
            return None, not isinstance(n, ast.Call)
        return None, _pure(n)
    return rec(expr)[0]


class _ExprInliner(ast.NodeTransformer):
    """calls to 'expr' helpers anywhere inside expressions"""

    def __init__(self, resolve, owner, depth=0):
        self.resolve, self.owner, self.depth = resolve, owner, depth
        self.changed = False

    def visit_Call(self, n):
        self.generic_visit(n)
        r = self.resolve(n)
        if r is not None and r[0] is not self.owner and _simple_callee(r[0]) == "expr" and self.depth < 3:
            e = inline_expr(r[0], n, r[1])
            if e is not None:
                self.changed = True
                e = _ExprInliner(self.resolve, self.owner, self.depth + 1).visit(e)
                return ast.copy_location(e, n)
        return n

    def visit_FunctionDef(self, n):
        return n if n is not self.owner else self.generic_visit(n)

    visit_Lambda = lambda self, n: n


def inline_local_defs(func):
    """nested defs / lambdas bound to a local and used only by direct calls in the same function"""
    defs = {}

    def collect(stmts):
        for st in stmts:
            if isinstance(st, ast.FunctionDef) and not st.decorator_list:
                defs.setdefault(st.name, []).append(st)
            elif isinstance(st, ast.Assign) and len(st.targets) == 1 and isinstance(st.targets[0], ast.Name) and isinstance(st.value, ast.Lambda):
                lam = st.value
                f = ast.FunctionDef(name=st.targets[0].id, args=lam.args, body=[ast.Return(value=lam.body)], decorator_list=[], returns=None, type_comment=None)
                try:
                    f.type_params = []
                except Exception:
                    pass
                ast.copy_location(f, st)
                ast.fix_missing_locations(f)
                defs.setdefault(st.targets[0].id, []).append(f)
            if not isinstance(st, (ast.FunctionDef, ast.ClassDef, ast.AsyncFunctionDef)):
                for fld in ("body", "orelse", "finalbody"):
                    b = getattr(st, fld, None)
                    if isinstance(b, list) and b and isinstance(b[0], ast.stmt):
                        collect(b)
    collect(func.body)
    if not defs:
        return func
    # a name defined once, never re-bound otherwise, whose free variables are not re-bound after the definition (checked
    # coarsely: free variables of the helper that the enclosing function stores at most once)
    store_count = {}
    for n in ast.walk(func):
        if isinstance(n, ast.Name) and isinstance(n.ctx, ast.Store):
            store_count[n.id] = store_count.get(n.id, 0) + 1
    usable = {}
    for name, lst in defs.items():
        if len(lst) != 1:
            continue
        d = lst[0]
        is_lambda = not any(d is st for st in ast.walk(func))
        if store_count.get(name, 0) > (1 if is_lambda else 0):
            continue
        kind = _simple_callee(d)
        if kind is None:
            continue
        params = {a.arg for a in d.args.args + d.args.kwonlyargs}
        own = {n.id for n in ast.walk(d) if isinstance(n, ast.Name) and isinstance(n.ctx, ast.Store)}
        free = {n.id for s in d.body for n in ast.walk(s) if isinstance(n, ast.Name) and isinstance(n.ctx, ast.Load)} - params - own
        if any(store_count.get(v, 0) > 1 for v in free):
            continue
        # used other than by a direct call (passed as a value, returned): keep
        refs = [n for n in ast.walk(func) if isinstance(n, ast.Name) and n.id == name and isinstance(n.ctx, ast.Load)]
        calls = [n for n in ast.walk(func) if isinstance(n, ast.Call) and isinstance(n.func, ast.Name) and n.func.id == name]
        if len(refs) != len(calls):
            continue
        if any(isinstance(n, ast.Call) and isinstance(n.func, ast.Name) and n.func.id == name for n in ast.walk(d)):
            continue          # recursive
        usable[name] = d
    if not usable:
        return func

    def resolve(call):
        if isinstance(call.func, ast.Name) and call.func.id in usable:
            return usable[call.func.id], None
        return None
    inline_stmt_calls(func, resolve)
    inl = _ExprInliner(resolve, func)
    # expression position: every statement's expressions, but not inside the helpers themselves
    new_body = []
    for st in func.body:
        new_body.append(inl.visit(st))
    func.body = new_body
    # drop definitions that are no longer referenced
    still = {n.func.id for n in ast.walk(func) if isinstance(n, ast.Call) and isinstance(n.func, ast.Name) and n.func.id in usable}

    def prune(stmts):
        out = []
        for st in stmts:
            if isinstance(st, ast.FunctionDef) and st.name in usable and st.name not in still:
                continue
            if isinstance(st, ast.Assign) and len(st.targets) == 1 and isinstance(st.targets[0], ast.Name) and isinstance(st.value, ast.Lambda) \
                    and st.targets[0].id in usable and st.targets[0].id not in still:
                continue
            if not isinstance(st, (ast.FunctionDef, ast.ClassDef, ast.AsyncFunctionDef)):
                for fld in ("body", "orelse", "finalbody"):
                    b = getattr(st, fld, None)
                    if isinstance(b, list) and b and isinstance(b[0], ast.stmt):
                        nb = prune(b)
                        setattr(st, fld, nb if nb or fld != "body" else [ast.copy_location(ast.Pass(), st)])
            out.append(st)
        return out
    func.body = prune(func.body) or [ast.Pass()]
    ast.fix_missing_locations(func)
    return func


# ------------------------------------------------------------------------------------------ extracted helpers, whole function

def _helper_calls(node, resolve, owner):
    """calls inside `node` to helpers that inline_stmt_calls could expand (statement helpers: loops, several statements)"""
    out = []
    for n in ast.walk(node):
        if isinstance(n, ast.Call):
            r = resolve(n)
            if r is not None and r[0] is not owner and _simple_callee(r[0]) == "stmts":
                out.append(n)
    return out


def _unfold_comprehension(st, resolve, owner):
    """`X = [E for .. in .. if ..]` whose element calls a statement helper -> `X = []` + the loop nest appending E (the inverse of
    core._Canon's append-loop folding): the helper call becomes a statement that can be expanded in place"""
    if not (isinstance(st, ast.Assign) and len(st.targets) == 1 and isinstance(st.targets[0], ast.Name) and isinstance(st.value, ast.ListComp)):
        return None
    comp = st.value
    if not _helper_calls(comp.elt, resolve, owner) or any(g.is_async for g in comp.generators):
        return None
    x = st.targets[0].id
    if x in _loaded(comp):
        return None
    inner = ast.Expr(value=ast.Call(func=ast.Attribute(value=ast.Name(id=x, ctx=ast.Load()), attr="append", ctx=ast.Load()), args=[comp.elt], keywords=[]))
    body = [inner]
    for g in reversed(comp.generators):
        for c in reversed(g.ifs):
            body = [ast.If(test=c, body=body, orelse=[])]
        body = [ast.For(target=g.target, iter=g.iter, body=body, orelse=[], type_comment=None)]
    init = ast.Assign(targets=[ast.Name(id=x, ctx=ast.Store())], value=ast.List(elts=[], ctx=ast.Load()))
    out = [init] + body
    for b in out:
        ast.copy_location(b, st)
        ast.fix_missing_locations(b)
    return out


def _split_conditional_assign(st, resolve, owner):
    """`x = h(a) if c else e` (h a statement helper in an arm of a conditional EXPRESSION) -> `if c: x = h(a)` / `else: x = e`: the
    same evaluation order, and the helper call becomes a whole statement that can be expanded in place.  Only for one target
    that is a plain name or an attribute of a plain name (nothing is evaluated for the target before the value)."""
    if not (isinstance(st, ast.Assign) and len(st.targets) == 1 and isinstance(st.value, ast.IfExp)):
        return None
    tg = st.targets[0]
    if not (isinstance(tg, ast.Name) or (isinstance(tg, ast.Attribute) and isinstance(tg.value, ast.Name))):
        return None
    e = st.value
    arms = [a for a in (e.body, e.orelse) if isinstance(a, ast.Call) and a in _helper_calls(a, resolve, owner)[:1]]
    if not arms or _helper_calls(e.test, resolve, owner):
        return None
    import copy as _copy
    mk = lambda v: ast.Assign(targets=[_copy.deepcopy(tg)], value=v)
    new = ast.If(test=e.test, body=[mk(e.body)], orelse=[mk(e.orelse)])
    for n in ast.walk(new):
        if not hasattr(n, "lineno"):
            ast.copy_location(n, st)
    ast.copy_location(new, st)
    ast.fix_missing_locations(new)
    return [new]


def _hoist_helper_arg(st, resolve, owner):
    """`X.append(h(a))` / `f(h(a))` / `x = g(h(a))` with h a statement helper -> `_t = h(a)` + the statement using `_t`; only when
    everything evaluated before the helper call is a plain name / constant (evaluation order is kept)"""
    if not isinstance(st, (ast.Expr, ast.Assign, ast.AugAssign, ast.Return)) or not isinstance(st.value, ast.Call):
        return None
    outer = st.value
    if resolve(outer) is not None and _simple_callee(resolve(outer)[0]) is not None:
        return None                       # the statement's own call is a helper: expanded as it is
    f = outer.func
    if not (isinstance(f, ast.Name) or (isinstance(f, ast.Attribute) and isinstance(f.value, ast.Name))):
        return None
    for i, a in enumerate(outer.args):
        if isinstance(a, ast.Call) and a in _helper_calls(a, resolve, owner)[:1]:
            if not all(_pure(p) for p in outer.args[:i]):
                return None
            t = f"_arg{next(_counter)}"
            pre = ast.Assign(targets=[ast.Name(id=t, ctx=ast.Store())], value=a)
            outer.args[i] = ast.Name(id=t, ctx=ast.Load())
            ast.copy_location(pre, st)
            ast.fix_missing_locations(pre)
            ast.fix_missing_locations(st)
            return [pre, st]
        if not _pure(a):
            return None
    return None


def fuse_comprehensions(func):
    """`xs = [E(t) for t in IT if C]` ... `[F(x) for x in xs if D]` with `xs` a local bound once and read once (as that iterable)  ->
    `[F(E(t)) for t in IT if C if D(E(t))]`: the intermediate list is never seen by anything else, each element is built and consumed
    in the same order.  E must be free of side effects (no walrus / await / yield); in place, returns func."""
    body = func.body
    loads, stores = {}, {}
    for n in ast.walk(func):
        if isinstance(n, ast.Name):
            (loads if isinstance(n.ctx, ast.Load) else stores).setdefault(n.id, []).append(n)
    for i, st in enumerate(list(body)):
        if not (isinstance(st, ast.Assign) and len(st.targets) == 1 and isinstance(st.targets[0], ast.Name) and isinstance(st.value, ast.ListComp)):
            continue
        name, inner = st.targets[0].id, st.value
        if len(stores.get(name, [])) != 1 or len(loads.get(name, [])) != 1 or len(inner.generators) != 1 or inner.generators[0].is_async:
            continue
        if any(isinstance(x, (ast.NamedExpr, ast.Await, ast.Yield, ast.YieldFrom, ast.Lambda)) for x in ast.walk(inner)):
            continue
        use = loads[name][0]
        for later in body[i + 1:]:
            for outer in ast.walk(later):
                if isinstance(outer, (ast.ListComp, ast.GeneratorExp)) and len(outer.generators) == 1 and outer.generators[0].iter is use \
                        and isinstance(outer.generators[0].target, ast.Name) and not outer.generators[0].is_async:
                    g_in, g_out = inner.generators[0], outer.generators[0]
                    var = g_out.target.id
                    inner_names = {x.id for x in ast.walk(g_in.target) if isinstance(x, ast.Name)}
                    # the inner loop variables must not capture names the outer element / filters read
                    outer_reads = {x.id for part in [outer.elt] + list(g_out.ifs) for x in ast.walk(part) if isinstance(x, ast.Name)} - {var}
                    if inner_names & outer_reads:
                        break
                    m = {var: inner.elt}
                    outer.elt = _Subst(dict(m)).visit(outer.elt)
                    new_ifs = list(g_in.ifs) + [_Subst(dict(m)).visit(c) for c in g_out.ifs]
                    outer.generators = [ast.comprehension(target=copy.deepcopy(g_in.target), iter=g_in.iter, ifs=new_ifs, is_async=0)]
                    body.remove(st)
                    ast.fix_missing_locations(func)
                    return fuse_comprehensions(func)
    return func


def _writelines_loops(func, resolve):
    """statement `F.writelines(self._pieces(..))` with `_pieces` a generator helper  ->  `for piece in self._pieces(..): F.write(piece)`
    (what writelines does with an iterable of strings), so that the producer can be merged into the loop (inline_generator_loops)"""
    class W(ast.NodeTransformer):
        def visit_Expr(self, n):
            c = n.value
            if isinstance(c, ast.Call) and isinstance(c.func, ast.Attribute) and c.func.attr == "writelines" and len(c.args) == 1 and not c.keywords \
                    and isinstance(c.func.value, ast.Name) and isinstance(c.args[0], ast.Call):
                r = resolve(c.args[0])
                if r is not None and r[0] is not func and _generator_callee(r[0]):
                    var = f"_piece{next(_counter)}"
                    call = ast.Call(func=ast.Attribute(value=copy.deepcopy(c.func.value), attr="write", ctx=ast.Load()), args=[ast.Name(id=var, ctx=ast.Load())], keywords=[])
                    loop = ast.For(target=ast.Name(id=var, ctx=ast.Store()), iter=c.args[0], body=[ast.Expr(value=call)], orelse=[])
                    return ast.fix_missing_locations(ast.copy_location(loop, n))
            return n

        def visit_FunctionDef(self, n):
            if n is func:
                self.generic_visit(n)
            return n
        visit_AsyncFunctionDef = visit_ClassDef = visit_Lambda = lambda self, n: n
    W().visit(func)
    return func


def expand_helpers(func, resolve):
    """A function with the helpers it was split into put back (in place; hand in a copy).  resolve(call) -> (callee FunctionDef,
    receiver expr | None) | None decides which calls are helpers (pymodel.Package.expanded: methods of the same class reached
    through self/cls, functions of the same module).  Statement helpers are expanded where a call is a whole statement, after
    comprehensions / call arguments that contain such a call were turned into statements; one-expression helpers are replaced
    wherever they are called.  Anything that cannot be expanded safely stays a call."""
    def prepare(stmts):
        out = []
        for st in stmts:
            for fld in ("body", "orelse", "finalbody"):
                b = getattr(st, fld, None)
                if isinstance(b, list) and b and isinstance(b[0], ast.stmt) and not isinstance(st, (ast.FunctionDef, ast.ClassDef, ast.AsyncFunctionDef)):
                    setattr(st, fld, prepare(b))
            un = _unfold_comprehension(st, resolve, func)
            if un is not None:
                out.extend(prepare(un))
                continue
            ho = _hoist_helper_arg(st, resolve, func)
            if ho is not None:
                out.extend(ho)
                continue
            sp = _split_conditional_assign(st, resolve, func)
            if sp is not None:
                out.extend(prepare(sp))
                continue
            out.append(st)
        return out
    func.body = prepare(func.body)
    _writelines_loops(func, resolve)
    inline_generator_loops(func, resolve)
    inline_stmt_calls(func, resolve)
    before = len(func.body), sum(1 for _ in ast.walk(func))
    inline_guard_calls(func, resolve)
    if (len(func.body), sum(1 for _ in ast.walk(func))) != before:
        inline_stmt_calls(func, resolve)          # procedures called from the stages that were put back
    func.body = [_ExprInliner(resolve, func).visit(st) for st in func.body]
    ast.fix_missing_locations(func)
    return func


def scalarise_local_objects(func, class_of):
    """A local helper OBJECT that only carries a few tables and the code that fills them --

        acc = _Table(n)                 class _Table:
        acc.add(row, term)                  def __init__(self, n): self.n = n; self.rhs = ["0.0"] * n
        rhs = acc.rhs                       def add(self, row, term): self.rhs[row] += term

    -- is the code it abbreviates: the constructor and every method call on the object are put back in place (expand_helpers, the
    receiver standing for `self`) and each field `acc.f` becomes the local `acc__f`.  class_of(callee expr) -> ClassDef | None names
    the plain helper classes (no bases, no decorators, no properties / dunder hooks besides __init__).  Done only when the object
    is bound once, at the top level of the function, and never used otherwise than `acc.<field>` / `acc.<method>(..)` (it does not
    escape) and every call could be put back; otherwise the function is returned unchanged.  Returns a new FunctionDef."""
    work = copy.deepcopy(func)
    objs = {}
    stores = {}
    for n in ast.walk(work):
        if isinstance(n, ast.Name) and isinstance(n.ctx, (ast.Store, ast.Del)):
            stores[n.id] = stores.get(n.id, 0) + 1
    params = {a.arg for a in ast.walk(work.args) if isinstance(a, ast.arg)}
    for i, st in enumerate(work.body):
        if isinstance(st, ast.Assign) and len(st.targets) == 1 and isinstance(st.targets[0], ast.Name) and isinstance(st.value, ast.Call):
            x = st.targets[0].id
            cd = class_of(st.value.func)
            if cd is None or stores.get(x) != 1 or x in params:
                continue
            if cd.bases or cd.decorator_list or cd.keywords:
                continue
            meths = {m.name: m for m in cd.body if isinstance(m, ast.FunctionDef)}
            if "__init__" not in meths or any(m.decorator_list or (k.startswith("__") and k != "__init__") for k, m in meths.items()):
                continue
            if any(isinstance(b, (ast.ClassDef, ast.AsyncFunctionDef)) for b in cd.body):
                continue
            # fields: everything the methods store through self; class-level attributes are not followed
            if any(isinstance(b, (ast.Assign, ast.AnnAssign)) and getattr(b, "value", None) is not None for b in cd.body):
                continue
            objs[x] = (i, meths)
    if not objs:
        return func
    for x, (i, meths) in objs.items():
        st = work.body[i]
        call = st.value
        init = ast.Expr(value=ast.Call(func=ast.Attribute(value=ast.Name(id=x, ctx=ast.Load()), attr="__init__", ctx=ast.Load()), args=call.args, keywords=call.keywords))
        work.body[i] = ast.fix_missing_locations(ast.copy_location(init, st))

    def resolve(call):
        f = call.func
        if isinstance(f, ast.Attribute) and isinstance(f.value, ast.Name) and f.value.id in objs and f.attr in objs[f.value.id][1]:
            return objs[f.value.id][1][f.attr], f.value
        return None
    try:
        expand_helpers(work, resolve)
    except RecursionError:
        return func
    # every remaining use of the object must be a field access
    parent_attr = set()
    for n in ast.walk(work):
        if isinstance(n, ast.Attribute) and isinstance(n.value, ast.Name) and n.value.id in objs:
            parent_attr.add(id(n.value))
            if n.attr in objs[n.value.id][1]:
                return func                 # a method used as a value / a call that could not be put back
    for n in ast.walk(work):
        if isinstance(n, ast.Name) and n.id in objs and id(n) not in parent_attr:
            return func                     # the object itself is read (passed on, returned, compared): it escapes
    fields = {}
    for n in ast.walk(work):
        if isinstance(n, ast.Attribute) and isinstance(n.value, ast.Name) and n.value.id in objs and isinstance(n.ctx, ast.Store):
            fields.setdefault(n.value.id, set()).add(n.attr)
    taken = {n.id for n in ast.walk(work) if isinstance(n, ast.Name)} | params

    class Fld(ast.NodeTransformer):
        def visit_Attribute(self, n):
            self.generic_visit(n)
            if isinstance(n.value, ast.Name) and n.value.id in objs:
                return ast.copy_location(ast.Name(id=f"{n.value.id}__{n.attr}", ctx=n.ctx), n)
            return n
    for x in objs:
        # a field that is read but never assigned, or whose local name is taken: not a plain record of tables
        reads = {n.attr for n in ast.walk(work) if isinstance(n, ast.Attribute) and isinstance(n.value, ast.Name) and n.value.id == x}
        if reads - fields.get(x, set()) or any(f"{x}__{f}" in taken for f in reads):
            return func
    work = Fld().visit(work)
    return ast.fix_missing_locations(work)


class _CallLambda(ast.NodeTransformer):
    """`(lambda: e)()` -> e   (a parameterless lambda called on the spot, e.g. after a table of closures was unrolled)"""

    def visit_Call(self, n):
        self.generic_visit(n)
        f = n.func
        if isinstance(f, ast.Lambda) and not n.args and not n.keywords and not (f.args.args or f.args.posonlyargs or f.args.kwonlyargs or f.args.vararg or f.args.kwarg):
            return ast.copy_location(f.body, n)
        return n


def _drop_dead_tables(func):
    """`name = <literal tuple/list of pure elements>` whose name is never read (any more, after its loop was unrolled): the
    binding has no effect, and its elements (e.g. references to local helpers) would otherwise count as uses"""
    read = {n.id for n in ast.walk(func) if isinstance(n, ast.Name) and isinstance(n.ctx, (ast.Load, ast.Del))}
    if any(isinstance(n, ast.Name) and n.id in ("locals", "vars", "eval", "exec") for n in ast.walk(func)):
        return func

    def prune(stmts):
        out = []
        for st in stmts:
            if isinstance(st, ast.Assign) and len(st.targets) == 1 and isinstance(st.targets[0], ast.Name) and st.targets[0].id not in read:
                seq = _literal_table(st.value)
                if seq is not None and all(_pure(e, lambdas=True) for e in seq.elts):
                    continue
            if not isinstance(st, (ast.FunctionDef, ast.ClassDef, ast.AsyncFunctionDef)):
                for fld in ("body", "orelse", "finalbody"):
                    b = getattr(st, fld, None)
                    if isinstance(b, list) and b and isinstance(b[0], ast.stmt):
                        nb = prune(b)
                        setattr(st, fld, nb if nb or fld != "body" else [ast.copy_location(ast.Pass(), st)])
            out.append(st)
        return out
    func.body = prune(func.body) or [ast.Pass()]
    return func


# ------------------------------------------------------------------------------------------------- namedtuple rows

def namedtuple_fields(mod: ast.Module) -> dict:
    """name -> [field, ..] of the namedtuple types a module defines at its top level (or one class level down):
    `X = namedtuple("X", "a b")` / `("a", "b")` / `["a", "b"]`, `class X(NamedTuple): a: T; b: T`"""
    out = {}

    def scan(body):
        for st in body:
            if isinstance(st, ast.Assign) and len(st.targets) == 1 and isinstance(st.targets[0], ast.Name) and isinstance(st.value, ast.Call) \
                    and ast.unparse(st.value.func) in ("namedtuple", "collections.namedtuple") and len(st.value.args) == 2 and not st.value.keywords:
                f = st.value.args[1]
                if isinstance(f, ast.Constant) and isinstance(f.value, str):
                    out[st.targets[0].id] = f.value.replace(",", " ").split()
                elif isinstance(f, (ast.Tuple, ast.List)) and all(isinstance(e, ast.Constant) and isinstance(e.value, str) for e in f.elts):
                    out[st.targets[0].id] = [e.value for e in f.elts]
            elif isinstance(st, ast.ClassDef) and any(ast.unparse(b) in ("NamedTuple", "typing.NamedTuple") for b in st.bases):
                fs = [b.target.id for b in st.body if isinstance(b, ast.AnnAssign) and isinstance(b.target, ast.Name)]
                if fs and not any(isinstance(b, ast.AnnAssign) and b.value is not None for b in st.body):
                    out[st.name] = fs
            elif isinstance(st, ast.ClassDef) and body is mod.body:
                scan(st.body)
    scan(mod.body)
    return out


def namedtuple_rows(mod: ast.Module) -> ast.Module:
    """A namedtuple built with all its fields given -- `Law(1, "a * zeta")`, `Law(code=1, text=..)` -- is the tuple of those values with names
    for its positions: the call is replaced by the tuple display (tagged with the field names), so that a table of such rows is a
    literal table (unrolled like any other) and `row.text`, once `row` has been replaced by the row's display, is the element
    (_ConstGetattr).  Values only: nothing else about the type is used."""
    fields = namedtuple_fields(mod)
    # (a NamedTuple class that defines METHODS is more than a row of values: its constructor call stays, valueflow reads it as a record
    # whose methods can be called)
    for st in ast.walk(mod):
        if isinstance(st, ast.ClassDef) and st.name in fields and any(isinstance(b, (ast.FunctionDef, ast.AsyncFunctionDef)) for b in st.body):
            del fields[st.name]
    if not fields:
        return mod

    class Rows(ast.NodeTransformer):
        def visit_Call(self, n):
            self.generic_visit(n)
            if isinstance(n.func, ast.Name) and n.func.id in fields and not any(isinstance(a, ast.Starred) for a in n.args) and all(k.arg for k in n.keywords):
                fs = fields[n.func.id]
                given = dict(zip(fs, n.args))
                if len(n.args) <= len(fs) and not any(k.arg in given or k.arg not in fs for k in n.keywords):
                    given.update({k.arg: k.value for k in n.keywords})
                    if len(given) == len(fs):
                        t = ast.copy_location(ast.Tuple(elts=[given[f] for f in fs], ctx=ast.Load()), n)
                        t._nt_fields = list(fs)
                        t._nt_type = n.func.id
                        return t
            return n
    return ast.fix_missing_locations(Rows().visit(mod))


class _ConstGetattr(ast.NodeTransformer):
    """`getattr(x, "name")` (two arguments, literal identifier) is the attribute access `x.name`;  `<namedtuple row display>.field` is
    the element at the field's position"""

    def visit_Attribute(self, n):
        self.generic_visit(n)
        fs = getattr(n.value, "_nt_fields", None)
        if fs and isinstance(n.value, ast.Tuple) and isinstance(n.ctx, ast.Load) and n.attr in fs and len(fs) == len(n.value.elts):
            return ast.copy_location(n.value.elts[fs.index(n.attr)], n)
        return n

    def visit_Call(self, n):
        self.generic_visit(n)
        if isinstance(n.func, ast.Name) and n.func.id == "getattr" and len(n.args) == 2 and not n.keywords \
                and isinstance(n.args[1], ast.Constant) and isinstance(n.args[1].value, str) and n.args[1].value.isidentifier():
            return ast.copy_location(ast.Attribute(value=n.args[0], attr=n.args[1].value, ctx=ast.Load()), n)
        return n

    def visit_Expr(self, n):
        # `setattr(x, "name", v)` as a statement (the name may come from a row of an unrolled table) is the store `x.name = v`
        self.generic_visit(n)
        c = n.value
        if isinstance(c, ast.Call) and isinstance(c.func, ast.Name) and c.func.id == "setattr" and len(c.args) == 3 and not c.keywords \
                and isinstance(c.args[1], ast.Constant) and isinstance(c.args[1].value, str) and c.args[1].value.isidentifier() \
                and not any(isinstance(a, ast.Starred) for a in c.args):
            return ast.copy_location(ast.Assign(targets=[ast.Attribute(value=c.args[0], attr=c.args[1].value, ctx=ast.Store())], value=c.args[2]), n)
        return n


class _ConstSetattr(ast.NodeTransformer):
    """the statement `setattr(x, "name", v)` (literal identifier) is the assignment `x.name = v`"""

    def visit_Expr(self, st):
        n = st.value
        if isinstance(n, ast.Call) and isinstance(n.func, ast.Name) and n.func.id == "setattr" and len(n.args) == 3 and not n.keywords \
                and isinstance(n.args[1], ast.Constant) and isinstance(n.args[1].value, str) and n.args[1].value.isidentifier() \
                and not any(isinstance(a, ast.Starred) for a in n.args):
            new = ast.Assign(targets=[ast.Attribute(value=n.args[0], attr=n.args[1].value, ctx=ast.Store())], value=n.args[2])
            return ast.copy_location(new, st)
        return st

    visit_FunctionDef = visit_AsyncFunctionDef = visit_ClassDef = visit_Lambda = lambda self, n: n


class _UpdateStores(ast.NodeTransformer):
    """the statement `X.update({"a": u, "b": v})` -- a dict display with literal string keys, X a plain name / attribute / subscript
    chain that the values do not read -- is the run of element stores `X["a"] = u; X["b"] = v` (a mapping's update assigns key by key,
    in order)"""

    def visit_Expr(self, st):
        n = st.value
        if isinstance(n, ast.Call) and isinstance(n.func, ast.Attribute) and n.func.attr == "update" and len(n.args) == 1 and not n.keywords \
                and isinstance(n.args[0], ast.Dict) and n.args[0].keys and all(isinstance(k, ast.Constant) and isinstance(k.value, str) for k in n.args[0].keys) \
                and _pure(n.func.value):
            base = n.func.value
            root = base
            while isinstance(root, (ast.Attribute, ast.Subscript)):
                root = root.value
            if isinstance(root, ast.Name) and not any(root.id in _loaded(v) for v in n.args[0].values):
                out = []
                for k, v in zip(n.args[0].keys, n.args[0].values):
                    tgt = ast.Subscript(value=copy.deepcopy(base), slice=k, ctx=ast.Store())
                    out.append(ast.fix_missing_locations(ast.copy_location(ast.Assign(targets=[tgt], value=v), v)))
                return out
        return st

    visit_FunctionDef = visit_AsyncFunctionDef = visit_ClassDef = visit_Lambda = lambda self, n: n


def const_getattr(node):
    """getattr / setattr with a literal attribute name are the attribute read / the attribute assignment; a mapping update with a
    literal display is the run of element stores"""
    node = _ConstGetattr().visit(node)
    if isinstance(node, (ast.FunctionDef, ast.AsyncFunctionDef)):
        for tr in (_ConstSetattr(), _UpdateStores()):
            body = []
            for st in node.body:
                r = tr.visit(st)
                body.extend(r if isinstance(r, list) else [r])
            node.body = body
    return ast.fix_missing_locations(node)


class _ConstSetattr(ast.NodeTransformer):
    """the statement `setattr(x, "name", v)` (literal identifier) is the assignment `x.name = v`"""

    def visit_Expr(self, n):
        c = n.value
        if isinstance(c, ast.Call) and isinstance(c.func, ast.Name) and c.func.id == "setattr" and len(c.args) == 3 and not c.keywords \
                and isinstance(c.args[1], ast.Constant) and isinstance(c.args[1].value, str) and c.args[1].value.isidentifier() \
                and not any(isinstance(a, ast.Starred) for a in c.args):
            tgt = ast.Attribute(value=c.args[0], attr=c.args[1].value, ctx=ast.Store())
            return ast.fix_missing_locations(ast.copy_location(ast.Assign(targets=[tgt], value=c.args[2]), n))
        return n

    visit_FunctionDef = visit_AsyncFunctionDef = visit_ClassDef = visit_Lambda = lambda self, n: n


def const_setattr(func):
    """opt-in (not part of normalize_function): `setattr(x, "name", v)` statements of `func` (in place; hand in a copy) as plain
    attribute stores -- after unroll_static_loops this reads a table `for name, v in (("a", e1), ("b", e2)): setattr(self, name, v)`
    as `self.a = e1; self.b = e2`"""
    tr = _ConstSetattr()

    def block(stmts):
        out = []
        for st in stmts:
            for fld in ("body", "orelse", "finalbody"):
                b = getattr(st, fld, None)
                if isinstance(b, list) and b and isinstance(b[0], ast.stmt) and not isinstance(st, (ast.FunctionDef, ast.ClassDef, ast.AsyncFunctionDef)):
                    setattr(st, fld, block(b))
            if isinstance(st, ast.Try):
                for h in st.handlers:
                    h.body = block(h.body)
            out.append(tr.visit(st) if isinstance(st, ast.Expr) else st)
        return out
    func.body = block(func.body)
    return func


# ------------------------------------------------------------------------------------------------ class-level constants

_ENUM_BASES = ("Enum", "IntEnum", "Flag", "IntFlag", "StrEnum", "NamedTuple", "TypedDict", "Protocol")


def _const_value(node):
    """an immutable literal: a constant or a (nested) tuple of such.  (List / set / dict displays are objects that can be aliased and
    edited, and rules name the package's long-standing tables by their attribute: they stay attribute reads.)"""
    if isinstance(node, ast.Constant) and not isinstance(node.value, (bytes, type(Ellipsis))):
        return True
    if isinstance(node, ast.UnaryOp) and isinstance(node.op, ast.USub) and isinstance(node.operand, ast.Constant) and isinstance(node.operand.value, (int, float)):
        return True
    if isinstance(node, ast.Tuple):
        return 1 <= len(node.elts) <= 24 and all(_const_value(e) for e in node.elts)
    if isinstance(node, ast.Call) and ast.unparse(node.func) in _CONST_CTORS and not node.keywords and node.args and all(isinstance(a, ast.Constant) for a in node.args):
        return True          # a pattern compiled from constants: an immutable value, the same wherever the expression is written
    return False


def class_constants(modules) -> dict:
    """{attribute name: literal node} for the class-level CONSTANTS of a package (`modules`: iterable of parsed modules, raw or
    normalised).  A constant is a name bound exactly once in the whole package as a class attribute -- to an immutable literal
    (constant, tuple of constants) -- and that is nowhere else
    bound at class or module level (no override in a subclass, no method / module global of that name), never stored through an
    attribute (`x.NAME = ..`, `x.NAME += ..`, `del x.NAME`, `x.NAME[i] = ..`, `x.NAME.append(..)`), never the literal name of a
    setattr / delattr, in a package without `setattr` on computed names in the defining module.  Under these conditions every read
    `<anything>.NAME` that succeeds yields the literal.  Enum / NamedTuple / dataclass bodies are not constants tables."""
    bound, touched, cand = {}, set(), {}
    for mod in modules:
        strings = None
        for n in ast.walk(mod):
            if isinstance(n, (ast.ClassDef, ast.Module)):
                is_cls = isinstance(n, ast.ClassDef)
                special = is_cls and (any(ast.unparse(b).split(".")[-1] in _ENUM_BASES for b in n.bases) or any("dataclass" in ast.unparse(d) for d in n.decorator_list))
                for st in n.body:
                    names = []
                    if isinstance(st, ast.Assign):
                        names = [x.id for t in st.targets for x in ast.walk(t) if isinstance(x, ast.Name)]
                    elif isinstance(st, (ast.AnnAssign, ast.AugAssign)):
                        names = [x.id for x in ast.walk(st.target) if isinstance(x, ast.Name)]
                    elif isinstance(st, (ast.FunctionDef, ast.AsyncFunctionDef, ast.ClassDef)):
                        names = [st.name]
                    elif isinstance(st, (ast.Import, ast.ImportFrom)):
                        names = [(a.asname or a.name).split(".")[0] for a in st.names]
                    elif not isinstance(st, (ast.Expr, ast.Pass)):
                        # a conditional / loop / try at class or module level: whatever it binds is not a constant
                        names = [x.id for x in ast.walk(st) if isinstance(x, ast.Name) and isinstance(x.ctx, ast.Store)] + \
                                [x.name for x in ast.walk(st) if isinstance(x, (ast.FunctionDef, ast.ClassDef))]
                        touched.update(names)
                    for nm in names:
                        bound[nm] = bound.get(nm, 0) + 1
                    if is_cls and not special and isinstance(st, (ast.Assign, ast.AnnAssign)) and st.value is not None and len(names) == 1:
                        tg = st.targets[0] if isinstance(st, ast.Assign) and len(st.targets) == 1 else st.target if isinstance(st, ast.AnnAssign) else None
                        v = st.value
                        if isinstance(v, ast.Call) and isinstance(v.func, ast.Name) and v.func.id == "tuple" and len(v.args) == 1 and not v.keywords \
                                and isinstance(v.args[0], (ast.Tuple, ast.List)):
                            v = ast.copy_location(ast.Tuple(elts=v.args[0].elts, ctx=ast.Load()), v)
                        if isinstance(tg, ast.Name) and _const_value(v):
                            cand[names[0]] = v
                    elif is_cls and special:
                        touched.update(names)
            elif isinstance(n, ast.Attribute) and isinstance(n.ctx, (ast.Store, ast.Del)):
                touched.add(n.attr)
            elif isinstance(n, ast.Subscript) and isinstance(n.ctx, (ast.Store, ast.Del)) and isinstance(n.value, ast.Attribute):
                touched.add(n.value.attr)
            elif isinstance(n, ast.Call) and isinstance(n.func, ast.Attribute) and isinstance(n.func.value, ast.Attribute) and n.func.attr in MUTATORS:
                touched.add(n.func.value.attr)
            elif isinstance(n, ast.Call) and isinstance(n.func, ast.Name) and n.func.id in ("setattr", "delattr") and len(n.args) >= 2:
                if isinstance(n.args[1], ast.Constant):
                    touched.add(n.args[1].value)
                else:
                    # a computed attribute name: any identifier spelled as a string in this module may be meant
                    if strings is None:
                        strings = {c.value for c in ast.walk(mod) if isinstance(c, ast.Constant) and isinstance(c.value, str) and c.value.isidentifier()}
                    touched |= strings
            elif isinstance(n, ast.Global):
                touched.update(n.names)
    return {k: v for k, v in cand.items() if bound.get(k, 0) == 1 and k not in touched}


class _ClassConsts(ast.NodeTransformer):
    """reads `<name>.NAME` of a class-level constant -> the literal"""

    def __init__(self, consts):
        self.consts = consts

    def visit_Attribute(self, n):
        if isinstance(n.ctx, ast.Load) and isinstance(n.value, ast.Name) and n.attr in self.consts:
            return ast.copy_location(copy.deepcopy(self.consts[n.attr]), n)
        return self.generic_visit(n)


def module_constants(mod: ast.Module) -> dict:
    """{name: literal} for names bound exactly once at module level (and by nothing else at module level: def, class, import,
    loop) to an immutable literal (_const_value), never declared `global` in a function"""
    count, cand = {}, {}
    for st in mod.body:
        if isinstance(st, (ast.FunctionDef, ast.AsyncFunctionDef, ast.ClassDef)):
            count[st.name] = count.get(st.name, 0) + 1
            continue
        for n in ast.walk(st):
            if isinstance(n, ast.Name) and isinstance(n.ctx, (ast.Store, ast.Del)):
                count[n.id] = count.get(n.id, 0) + 1
            elif isinstance(n, ast.alias):
                nm = (n.asname or n.name).split(".")[0]
                count[nm] = count.get(nm, 0) + 1
        tg = st.targets[0] if isinstance(st, ast.Assign) and len(st.targets) == 1 else st.target if isinstance(st, ast.AnnAssign) and st.value is not None else None
        if isinstance(tg, ast.Name) and _const_value(st.value):
            cand[tg.id] = st.value
    if not cand:
        return {}
    glob = {nm for n in ast.walk(mod) if isinstance(n, (ast.Global, ast.Nonlocal)) for nm in n.names}
    return {k: v for k, v in cand.items() if count.get(k, 0) == 1 and k not in glob}


class _ModuleConsts(ast.NodeTransformer):
    """reads of a module-level constant inside the functions of the module -> the literal, unless the name is bound in the function
    (or in a function enclosing it): parameter, assignment, loop / comprehension / with / except target, nested def, import"""

    def __init__(self, consts):
        self.consts = consts
        self.scopes = []

    @staticmethod
    def _locals(fn):
        a = fn.args
        out = {p.arg for p in a.posonlyargs + a.args + a.kwonlyargs} | ({a.vararg.arg} if a.vararg else set()) | ({a.kwarg.arg} if a.kwarg else set())
        body = fn.body if isinstance(fn.body, list) else [fn.body]
        for st in body:
            for n in ast.walk(st):
                if isinstance(n, ast.Name) and isinstance(n.ctx, (ast.Store, ast.Del)):
                    out.add(n.id)
                elif isinstance(n, (ast.FunctionDef, ast.AsyncFunctionDef, ast.ClassDef)):
                    out.add(n.name)
                elif isinstance(n, ast.alias):
                    out.add((n.asname or n.name).split(".")[0])
                elif isinstance(n, ast.ExceptHandler) and n.name:
                    out.add(n.name)
        return out

    def _scoped(self, n):
        self.scopes.append(self._locals(n))
        try:
            return self.generic_visit(n)
        finally:
            self.scopes.pop()

    visit_FunctionDef = visit_AsyncFunctionDef = visit_Lambda = _scoped

    def visit_Name(self, n):
        if self.scopes and isinstance(n.ctx, ast.Load) and n.id in self.consts and not any(n.id in sc for sc in self.scopes):
            return ast.copy_location(copy.deepcopy(self.consts[n.id]), n)
        return n


class _PatternCalls(ast.NodeTransformer):
    """`re.compile(P).m(args)` is `re.m(P, args)` for the scanning methods, called with the arguments the module-level function
    takes too (no pos / endpos): one spelling of a regular-expression scan, whether or not the pattern was compiled first"""
    NARGS = {"sub": (2, 3), "subn": (2, 3), "split": (1, 2), "findall": (1, 1), "finditer": (1, 1), "search": (1, 1), "match": (1, 1), "fullmatch": (1, 1)}

    def visit_Call(self, n):
        self.generic_visit(n)
        f = n.func
        if isinstance(f, ast.Attribute) and f.attr in self.NARGS and isinstance(f.value, ast.Call) and ast.unparse(f.value.func) == "re.compile" \
                and len(f.value.args) == 1 and not f.value.keywords and not n.keywords and not any(isinstance(a, ast.Starred) for a in n.args + f.value.args):
            lo, hi = self.NARGS[f.attr]
            if lo <= len(n.args) <= hi:
                return ast.copy_location(ast.Call(func=ast.copy_location(ast.Attribute(value=f.value.func.value, attr=f.attr, ctx=ast.Load()), f),
                                                  args=[f.value.args[0]] + list(n.args), keywords=[]), n)
        return n


def inline_class_constants(mod, consts: dict):
    """every read of a class-level constant of the package (class_constants) and, inside functions, of a module-level constant
    (module_constants) replaced by its literal; scans through a pattern compiled on the spot in their module-function spelling"""
    if consts:
        mod = _ClassConsts(consts).visit(mod)
    mc = module_constants(mod)
    if mc:
        mod = _ModuleConsts(mc).visit(mod)
    mod = _PatternCalls().visit(mod)
    return ast.fix_missing_locations(mod)


# ----------------------------------------------------------------------------------------------------- closure dispatch

def specialise_dispatch(func):
    """Closure dispatch

        if c1:                          if c1:
            def f(..): return e1            S[f := f_1]      (f_1 = the first arm's f)
        elif c2:                 ->     elif c2:
            def f(..): return e2            S[f := f_2]
        else:                           else:
            raise ..                        raise ..
        S   (statements using f)

    is the if/elif chain of specialised statements it abbreviates: the statements up to the last use of `f` are moved into every arm
    that defines `f` (tail duplication -- arms that leave the block do not reach them anyway), each arm's `f` under a name of its own,
    which inline_local_defs then substitutes.  Applied only when every arm either leaves the block or consists of nothing but the
    definition of the one name, and that name is used nowhere else in the function."""
    def arms_of(st):
        out = []
        while True:
            out.append(st.body)
            if len(st.orelse) == 1 and isinstance(st.orelse[0], ast.If):
                st = st.orelse[0]
                continue
            out.append(st.orelse)          # [] when there is no else
            return out

    def leaves(body):
        return bool(body) and isinstance(body[-1], (ast.Raise, ast.Return))

    def only_def(body):
        body = [b for b in body if not isinstance(b, ast.Pass) and not (isinstance(b, ast.Expr) and isinstance(b.value, ast.Constant))]
        if len(body) == 1 and isinstance(body[0], ast.FunctionDef) and not body[0].decorator_list:
            return body[0]
        return None

    def uses(node, name):
        return [n for n in ast.walk(node) if isinstance(n, ast.Name) and n.id == name]

    def block(stmts):
        i = 0
        while i < len(stmts):
            st = stmts[i]
            if isinstance(st, ast.If):
                arms = arms_of(st)
                defs = [only_def(a) for a in arms]
                names = {d.name for d in defs if d is not None}
                if len(names) == 1 and sum(d is not None for d in defs) >= 2 and all(d is not None or leaves(a) for d, a in zip(defs, arms)):
                    (name,) = names
                    last = max((j for j in range(i + 1, len(stmts)) if uses(stmts[j], name)), default=None)
                    inside = sum(len(uses(stmts[j], name)) for j in range(i + 1, (last or i) + 1))
                    everywhere = len(uses(func, name))
                    stores = [n for n in uses(func, name) if isinstance(n.ctx, (ast.Store, ast.Del))]
                    redefs = [n for n in ast.walk(func) if isinstance(n, (ast.FunctionDef, ast.ClassDef)) and n.name == name and not any(n is d for d in defs)]
                    if last is not None and last - i <= 6 and inside == everywhere and not stores and not redefs \
                            and not any(isinstance(n, (ast.FunctionDef, ast.ClassDef, ast.Lambda)) for j in range(i + 1, last + 1) for n in ast.walk(stmts[j])):
                        tail = stmts[i + 1:last + 1]
                        for d, a in zip(defs, arms):
                            if d is None:
                                continue
                            new = f"{name}__arm{next(_counter)}"
                            d.name = new
                            a.extend(_Rename({name: new}).visit(copy.deepcopy(t)) for t in tail)
                        del stmts[i + 1:last + 1]
            for fld in ("body", "orelse", "finalbody"):
                b = getattr(st, fld, None)
                if isinstance(b, list) and b and isinstance(b[0], ast.stmt) and not isinstance(st, (ast.FunctionDef, ast.ClassDef, ast.AsyncFunctionDef)):
                    block(b)
            if isinstance(st, ast.Try):
                for h in st.handlers:
                    block(h.body)
            i += 1
    block(func.body)
    return func


def specialise_selected_name(func):
    """A method NAME picked by a chain of tests and then looked up

        x = "a" if c1 else "b" if c2 else None              if c1:   S[x := "a"]
        S   (.. getattr(obj, x) ..)                  ->     elif c2: S[x := "b"]
                                                            else:    S[x := None]

    is the if/elif chain of specialised statements it abbreviates (tail duplication, as in specialise_dispatch): the tests are
    evaluated in the same order and before S either way.  In every copy the constant is propagated: `getattr(obj, "a")` is `obj.a`,
    `if "a" is None:` is decided, statements after a raise / return of the arm are dropped.  Applied to an assignment at the top level
    of the function whose leaves are all constants, to a local bound only there and used as the name of a `getattr` afterwards."""
    def leaves(e, conds):
        if isinstance(e, ast.IfExp):
            return leaves(e.body, conds + [(e.test, True)]) and leaves(e.orelse, conds + [(e.test, False)])
        return isinstance(e, ast.Constant)

    local_defs = {n.name for n in func.body if isinstance(n, ast.FunctionDef)}
    rebound = {n.id for n in ast.walk(func) if isinstance(n, ast.Name) and isinstance(n.ctx, (ast.Store, ast.Del))}

    def leaf(e):
        # a constant, or the name of a function defined (once) in this function's body: `law = twobody if .. else None; law()`
        return isinstance(e, ast.Constant) or (isinstance(e, ast.Name) and e.id in local_defs and e.id not in rebound)

    def arms(e):
        out = []
        while isinstance(e, ast.IfExp) and leaf(e.body):
            out.append((e.test, e.body))
            e = e.orelse
        return (out, e) if leaf(e) and out else (None, None)

    class _DefIsNone(ast.NodeTransformer):
        """`<name of a local def> is None` is False"""
        def visit_Compare(self, n):
            self.generic_visit(n)
            if len(n.ops) == 1 and isinstance(n.ops[0], (ast.Is, ast.IsNot)) and isinstance(n.left, ast.Name) and n.left.id in local_defs and n.left.id not in rebound \
                    and isinstance(n.comparators[0], ast.Constant) and n.comparators[0].value is None:
                return ast.copy_location(ast.Constant(value=isinstance(n.ops[0], ast.IsNot)), n)
            return n
    body = func.body
    for i, st in enumerate(body):
        if not (isinstance(st, ast.Assign) and len(st.targets) == 1 and isinstance(st.targets[0], ast.Name) and isinstance(st.value, ast.IfExp)):
            continue
        x = st.targets[0].id
        chain, default = arms(st.value)
        if chain is None or len(chain) > 24 or not all(_pure(t) for t, _ in chain):
            continue
        rest = body[i + 1:]
        if not rest or len(rest) > 12:
            continue
        stores = [n for n in ast.walk(func) if isinstance(n, ast.Name) and n.id == x and isinstance(n.ctx, (ast.Store, ast.Del))]
        before = [n for b in body[:i] for n in ast.walk(b) if isinstance(n, ast.Name) and n.id == x]
        as_name = [c for r in rest for c in ast.walk(r) if isinstance(c, ast.Call) and isinstance(c.func, ast.Name) and c.func.id == "getattr" and len(c.args) == 2
                   and not c.keywords and isinstance(c.args[1], ast.Name) and c.args[1].id == x]
        # ... or the selected local function is called: `law()`
        as_name += [c for r in rest for c in ast.walk(r) if isinstance(c, ast.Call) and isinstance(c.func, ast.Name) and c.func.id == x
                    and any(isinstance(v, ast.Name) for _, v in chain)]
        if len(stores) != 1 or before or not as_name or any(isinstance(n, (ast.FunctionDef, ast.ClassDef, ast.Lambda, ast.Global, ast.Nonlocal)) for r in rest for n in ast.walk(r)):
            continue
        # (the tests read nothing the statements could have changed in between: they all precede S in both forms)

        def copy_for(const):
            out = [_Subst({x: const}).visit(copy.deepcopy(r)) for r in rest]
            out = [_Fold().visit(_DefIsNone().visit(r)) for r in out]
            out = _prune_const_ifs(out)
            cut = next((k for k, r in enumerate(out) if isinstance(r, (ast.Raise, ast.Return))), None)
            return (out[:cut + 1] if cut is not None else out) or [ast.Pass()]
        node = None
        for test, const in reversed(chain):
            node = ast.If(test=copy.deepcopy(test), body=copy_for(const), orelse=[node] if node is not None else copy_for(default))
        func.body = body[:i] + [ast.copy_location(node, st)]
        ast.fix_missing_locations(func)
        return specialise_selected_name(func)
    return func


# ------------------------------------------------------------------------------------------- index loops -> enumerate

class _IndexLoops(ast.NodeTransformer):
    """`for i in range(len(X)): .. X[i] ..`  ->  `for i, x in enumerate(X): .. x ..`  when X is a plain name / attribute chain that the
    body neither re-binds nor mutates and `i` is not re-bound: the loop visits the same elements in the same order.  A leading
    `x = X[i]` supplies the element's name."""

    def visit_For(self, n):
        self.generic_visit(n)
        it = n.iter
        if n.orelse or not isinstance(n.target, ast.Name) or not (isinstance(it, ast.Call) and isinstance(it.func, ast.Name) and it.func.id == "range"
                                                                  and len(it.args) == 1 and not it.keywords):
            return n
        ln = it.args[0]
        if isinstance(ln, ast.Name) and ln.id in getattr(self, "lens", {}):
            ln = self.lens[ln.id]           # `n = len(X)` bound once, X never re-bound / mutated in the function: range(n) is range(len(X))
        if not (isinstance(ln, ast.Call) and isinstance(ln.func, ast.Name) and ln.func.id == "len" and len(ln.args) == 1 and not ln.keywords):
            return n
        X = ln.args[0]
        b = X
        while isinstance(b, ast.Attribute):
            b = b.value
        if not isinstance(b, ast.Name) or not _pure(X):
            return n
        i = n.target.id
        xs = ast.unparse(X)
        stored = _stored(n.body)
        if i in stored or b.id in stored:
            return n

        def is_elem(e):
            return isinstance(e, ast.Subscript) and isinstance(e.ctx, ast.Load) and ast.unparse(e.value) == xs \
                and isinstance(e.slice, ast.Name) and e.slice.id == i
        body = list(n.body)
        first = body[0] if body else None
        if isinstance(first, ast.Assign) and len(first.targets) == 1 and isinstance(first.targets[0], ast.Name) and is_elem(first.value) \
                and first.targets[0].id not in _stored(body[1:]) and first.targets[0].id != i:
            name = first.targets[0].id
            body = body[1:] or [ast.copy_location(ast.Pass(), first)]
        elif any(is_elem(e) for st in body for e in ast.walk(st)):
            name = f"_elem{next(_counter)}"
        else:
            return n

        class R(ast.NodeTransformer):
            def visit_Subscript(self, e):
                if is_elem(e):
                    return ast.copy_location(ast.Name(id=name, ctx=ast.Load()), e)
                return self.generic_visit(e)
        n.body = [R().visit(st) for st in body]
        n.target = ast.copy_location(ast.Tuple(elts=[ast.Name(id=i, ctx=ast.Store()), ast.Name(id=name, ctx=ast.Store())], ctx=ast.Store()), n.target)
        n.iter = ast.copy_location(ast.Call(func=ast.Name(id="enumerate", ctx=ast.Load()), args=[X], keywords=[]), it)
        ast.fix_missing_locations(n)
        return n

    def visit_FunctionDef(self, n):
        return n            # nested functions are normalised on their own

    visit_Lambda = visit_AsyncFunctionDef = visit_ClassDef = lambda self, n: n


def _single_lens(func) -> dict:
    """{n: the call len(X)} for the locals bound exactly once in the function, to `len(X)` with X a plain name / attribute chain whose
    base name is bound at most once in the function and never mutated in place there (so len(X) means the same wherever n is read)"""
    stores = {}
    for x in ast.walk(func):
        if isinstance(x, ast.Name) and isinstance(x.ctx, (ast.Store, ast.Del)):
            stores[x.id] = stores.get(x.id, 0) + 1
    mutated = _stored(func.body) - set(stores)
    for x in ast.walk(func):
        if isinstance(x, ast.Call) and isinstance(x.func, ast.Attribute) and x.func.attr in MUTATORS:
            b = x.func.value
            while isinstance(b, (ast.Subscript, ast.Attribute)):
                b = b.value
            if isinstance(b, ast.Name):
                mutated.add(b.id)
        elif isinstance(x, (ast.Subscript, ast.Attribute)) and isinstance(x.ctx, (ast.Store, ast.Del)):
            b = x
            while isinstance(b, (ast.Subscript, ast.Attribute)):
                b = b.value
            if isinstance(b, ast.Name):
                mutated.add(b.id)
    out = {}
    for st in ast.walk(func):
        if isinstance(st, ast.Assign) and len(st.targets) == 1 and isinstance(st.targets[0], ast.Name) and stores.get(st.targets[0].id) == 1 \
                and isinstance(st.value, ast.Call) and isinstance(st.value.func, ast.Name) and st.value.func.id == "len" and len(st.value.args) == 1 and not st.value.keywords:
            b = st.value.args[0]
            while isinstance(b, ast.Attribute):
                b = b.value
            if isinstance(b, ast.Name) and stores.get(b.id, 0) <= 1 and b.id not in mutated and "len" not in stores:
                out[st.targets[0].id] = st.value
    return out


def index_loops_to_enumerate(func):
    tr = _IndexLoops()
    tr.lens = _single_lens(func)
    func.body = [tr.visit(st) for st in func.body]
    return func


# ------------------------------------------------------------------------------------------- dict loops by key -> .items()

def dict_key_loops_to_items(func):
    """`for k in D: .. D[k] ..` / `for k in D.keys(): .. D[k] ..`  ->  `for k, v in D.items(): .. v ..`  when D is a PARAMETER of the function
    annotated as a dict (`dict[..]` / `Dict[..]` / `dict`), or such a parameter defaulted once at the top level (`D = D or {}`), and the
    body neither re-binds k or D nor stores into D: the same keys in the same order, each with the value looked up under it.  A leading
    `v = D[k]` supplies the value's name.  (Only dict-typed names: `X[x]` for x in a list X would mean something else.)"""
    a = func.args
    dicts = set()
    for p_ in a.posonlyargs + a.args + a.kwonlyargs:
        ann = ast.unparse(p_.annotation) if p_.annotation is not None else ""
        if re.match(r"(typing\.)?(dict|Dict|Mapping|OrderedDict)\b", ann):
            dicts.add(p_.arg)
    if not dicts:
        return func
    # the parameter may be re-bound only as `D = D or {}` / `D = {} if D is None else D` (still a dict)
    for st in ast.walk(func):
        if isinstance(st, (ast.Assign, ast.AugAssign, ast.AnnAssign)):
            for t in (st.targets if isinstance(st, ast.Assign) else [st.target]):
                for x in ast.walk(t):
                    if isinstance(x, ast.Name) and x.id in dicts and not (isinstance(t, ast.Name) and isinstance(st, ast.Assign) and isinstance(st.value, (ast.BoolOp, ast.IfExp))
                                                                           and all(isinstance(y, (ast.Name, ast.Dict, ast.Constant, ast.BoolOp, ast.IfExp, ast.Compare, ast.Load, ast.Or, ast.Is, ast.IsNot, ast.Not, ast.UnaryOp, ast.And))
                                                                                   for y in ast.walk(st.value))):
                        dicts.discard(x.id)

    class T(ast.NodeTransformer):
        def visit_For(self, n):
            self.generic_visit(n)
            it = n.iter
            if isinstance(it, ast.Call) and isinstance(it.func, ast.Attribute) and it.func.attr == "keys" and not it.args and not it.keywords:
                it = it.func.value
            if n.orelse or not (isinstance(it, ast.Name) and it.id in dicts and isinstance(n.target, ast.Name)):
                return n
            d, k = it.id, n.target.id
            stored = _stored(n.body)
            if k in stored or d in stored:
                return n

            def is_val(e):
                return isinstance(e, ast.Subscript) and isinstance(e.ctx, ast.Load) and isinstance(e.value, ast.Name) and e.value.id == d \
                    and isinstance(e.slice, ast.Name) and e.slice.id == k
            body = list(n.body)
            first = body[0] if body else None
            if isinstance(first, ast.Assign) and len(first.targets) == 1 and isinstance(first.targets[0], ast.Name) and is_val(first.value) \
                    and first.targets[0].id not in _stored(body[1:]) and first.targets[0].id != k:
                name = first.targets[0].id
                body = body[1:] or [ast.copy_location(ast.Pass(), first)]
            elif any(is_val(e) for st in body for e in ast.walk(st)):
                name = f"_val{next(_counter)}"
            else:
                return n

            class R(ast.NodeTransformer):
                def visit_Subscript(self, e):
                    if is_val(e):
                        return ast.copy_location(ast.Name(id=name, ctx=ast.Load()), e)
                    return self.generic_visit(e)
            n.body = [R().visit(st) for st in body]
            n.target = ast.copy_location(ast.Tuple(elts=[ast.Name(id=k, ctx=ast.Store()), ast.Name(id=name, ctx=ast.Store())], ctx=ast.Store()), n.target)
            n.iter = ast.copy_location(ast.Call(func=ast.Attribute(value=ast.Name(id=d, ctx=ast.Load()), attr="items", ctx=ast.Load()), args=[], keywords=[]), n.iter)
            ast.fix_missing_locations(n)
            return n

        def visit_FunctionDef(self, n):
            if n is func:
                self.generic_visit(n)
            return n
        visit_Lambda = visit_AsyncFunctionDef = visit_ClassDef = lambda self, n: n
    T().visit(func)
    return func


# ------------------------------------------------------------------------------------------- keyword tables handed on with **

def expand_kwargs_dicts(func):
    """`opts = {"a": x, "b": y}` (or `dict(a=x, b=y)`), bound once, read only as `f(**opts)` later in the same statement list, nothing in
    between re-binding a name the values read or mutating `opts`:  the call is `f(a=x, b=y)` and the table disappears.  The keyword
    arguments of a call are then visible to rules that read them, however they were collected."""
    def table(v):
        if isinstance(v, ast.Dict) and v.keys and all(isinstance(k, ast.Constant) and isinstance(k.value, str) and k.value.isidentifier() for k in v.keys):
            return [(k.value, x) for k, x in zip(v.keys, v.values)]
        if isinstance(v, ast.Call) and isinstance(v.func, ast.Name) and v.func.id == "dict" and not v.args and v.keywords and all(k.arg for k in v.keywords):
            return [(k.arg, k.value) for k in v.keywords]
        return None

    def block(stmts):
        i = 0
        while i < len(stmts):
            st = stmts[i]
            for fld in ("body", "orelse", "finalbody"):
                b = getattr(st, fld, None)
                if isinstance(b, list) and b and isinstance(b[0], ast.stmt) and not isinstance(st, (ast.FunctionDef, ast.AsyncFunctionDef, ast.ClassDef)):
                    block(b)
            if isinstance(st, ast.Assign) and len(st.targets) == 1 and isinstance(st.targets[0], ast.Name) and table(st.value) is not None:
                name = st.targets[0].id
                uses = [n for n in ast.walk(func) if isinstance(n, ast.Name) and n.id == name]
                stars = [(j, c, k) for j in range(i + 1, len(stmts)) for c in ast.walk(stmts[j]) if isinstance(c, ast.Call)
                         for k in c.keywords if k.arg is None and isinstance(k.value, ast.Name) and k.value.id == name]
                if len(uses) == 2 and len(stars) == 1:
                    j, call, kw = stars[0]
                    pairs = table(st.value)
                    reads = set().union(*[_loaded(v) for _, v in pairs]) if pairs else set()
                    between = stmts[i + 1:j]
                    given = {k.arg for k in call.keywords if k.arg}
                    # (values with effects of their own may only move when nothing at all is evaluated between the table and the call)
                    alone = not between and not call.args and len(call.keywords) == 1 and getattr(stmts[j], "value", None) is call
                    if not (_stored(between) & (reads | {name})) and not (given & {k for k, _ in pairs}) and (alone or all(_pure(v) for _, v in pairs)):
                        pos = call.keywords.index(kw)
                        call.keywords[pos:pos + 1] = [ast.copy_location(ast.keyword(arg=k, value=v), v) for k, v in pairs]
                        del stmts[i]
                        ast.fix_missing_locations(func)
                        continue
            i += 1
    block(func.body)
    return func


# ------------------------------------------------------------------------------------------- bound-method aliases

def inline_method_aliases(func):
    """`g = a.b.get` (a plain attribute chain on a name, bound once at the top level of the function, the names of the chain never
    re-bound in the function) and afterwards only CALLED (`g(x)`): every call is the method call `a.b.get(x)` it abbreviates.  Hoisting
    an attribute lookup changes nothing a rule is about; the rules see the receiver again."""
    cands = {}
    for i, st in enumerate(func.body):
        if isinstance(st, ast.Assign) and len(st.targets) == 1 and isinstance(st.targets[0], ast.Name) and isinstance(st.value, ast.Attribute):
            b = st.value
            while isinstance(b, ast.Attribute):
                b = b.value
            if isinstance(b, ast.Name):
                cands.setdefault(st.targets[0].id, []).append((i, st, b.id))
    if not cands:
        return func
    rebound = {}
    for n in ast.walk(func):
        if isinstance(n, ast.Name) and isinstance(n.ctx, (ast.Store, ast.Del)):
            rebound[n.id] = rebound.get(n.id, 0) + 1
        elif isinstance(n, (ast.FunctionDef, ast.AsyncFunctionDef, ast.ClassDef)) and n is not func:
            rebound[n.name] = rebound.get(n.name, 0) + 1
    params = {a.arg for a in func.args.posonlyargs + func.args.args + func.args.kwonlyargs}
    dead = []
    for name, lst in cands.items():
        if len(lst) != 1 or rebound.get(name, 0) != 1 or name in params:
            continue
        i, st, base = lst[0]
        if base in rebound:
            continue                      # the receiver is a local / a re-bound parameter: it may change between the alias and a call
        loads = [n for n in ast.walk(func) if isinstance(n, ast.Name) and n.id == name and isinstance(n.ctx, ast.Load)]
        calls = [n for n in ast.walk(func) if isinstance(n, ast.Call) and isinstance(n.func, ast.Name) and n.func.id == name]
        if not loads or len(loads) != len(calls):
            continue
        # every use comes after the binding: none inside the statements before it
        if any(isinstance(n, ast.Name) and n.id == name for s_ in func.body[:i] for n in ast.walk(s_)):
            continue
        # the chain's intermediate attributes must not be stored in the function (self.a = .. between alias and call)
        chain_attrs = set()
        b = st.value.value
        while isinstance(b, ast.Attribute):
            chain_attrs.add(b.attr)
            b = b.value
        if any(isinstance(n, ast.Attribute) and isinstance(n.ctx, (ast.Store, ast.Del)) and n.attr in chain_attrs for n in ast.walk(func)):
            continue
        for c in calls:
            c.func = ast.copy_location(copy.deepcopy(st.value), c.func)
        dead.append(st)
    func.body = [s_ for s_ in func.body if not any(s_ is d for d in dead)] or [ast.Pass()]
    ast.fix_missing_locations(func)
    return func


# ------------------------------------------------------------------------------------------- loop fission over a concatenation

_VIEW_FUNCS = {"zip", "repeat", "itertools.repeat", "enumerate", "list", "tuple", "range", "len", "reversed", "chain", "itertools.chain"}


def _view_pure(e) -> bool:
    """an expression that only re-reads its operands (names, attributes, constants, displays, zip/repeat/enumerate/.. of such):
    evaluating it a little later, or twice, gives the same sequence as long as the names it reads are not re-bound or mutated"""
    if isinstance(e, (ast.Name, ast.Constant)):
        return True
    if isinstance(e, ast.Attribute):
        return _view_pure(e.value)
    if isinstance(e, (ast.Tuple, ast.List)):
        return all(_view_pure(x.value if isinstance(x, ast.Starred) else x) for x in e.elts)
    if isinstance(e, ast.BinOp) and isinstance(e.op, ast.Add):
        return _view_pure(e.left) and _view_pure(e.right)
    if isinstance(e, ast.Call) and ast.unparse(e.func) in _VIEW_FUNCS and not e.keywords:
        return all(not isinstance(a, ast.Starred) and _view_pure(a) for a in e.args)
    return False


def _concat_parts(e):
    """[A, B, ..] when `e` is the concatenation chain(A, B, ..) / A + B / [*A, *B] (possibly inside list(..) / tuple(..)), else None"""
    if isinstance(e, ast.Call) and isinstance(e.func, ast.Name) and e.func.id in ("list", "tuple") and len(e.args) == 1 and not e.keywords:
        return _concat_parts(e.args[0])
    if isinstance(e, ast.Call) and ast.unparse(e.func) in ("chain", "itertools.chain") and len(e.args) >= 2 and not e.keywords \
            and not any(isinstance(a, ast.Starred) for a in e.args):
        return list(e.args)
    if isinstance(e, (ast.List, ast.Tuple)) and len(e.elts) >= 2 and all(isinstance(x, ast.Starred) for x in e.elts):
        return [x.value for x in e.elts]
    if isinstance(e, ast.BinOp) and isinstance(e.op, ast.Add):
        l, r = _concat_parts(e.left), _concat_parts(e.right)
        if l is not None or r is not None or all(isinstance(x, (ast.Name, ast.List, ast.ListComp, ast.Call)) for x in (e.left, e.right)):
            return (l or [e.left]) + (r or [e.right])
    return None


def _own_break(stmts) -> bool:
    """a `break` that belongs to the enclosing loop"""
    def rec(node):
        for ch in ast.iter_child_nodes(node):
            if isinstance(ch, ast.Break):
                return True
            if isinstance(ch, (ast.For, ast.While, ast.FunctionDef, ast.Lambda, ast.ClassDef)):
                if any(isinstance(x, ast.Break) for s_ in getattr(ch, "orelse", []) for x in ast.walk(s_)):
                    return True
                continue
            if rec(ch):
                return True
        return False
    return any(isinstance(s_, ast.Break) or rec(s_) for s_ in stmts)


def split_concat_loops(func):
    """Loop fission: `for T in chain(A, B)` (also `A + B`, `[*A, *B]`, through list()/tuple(), or through a local bound just
    before to such an expression and not changed since) is `for T in A: BODY` followed by `for T in B: BODY` -- the iterations, their
    order and the final binding of T are the same.  Only for operands that merely re-read names (_view_pure) which the body does
    not re-bind or mutate, and bodies without `break` / `else`.  A signed table `changes = chain(zip(repeat("-"), R), zip(repeat("+"), P))`
    walked by one loop then reads as the two loops it abbreviates."""
    def block(stmts, table):
        out = []
        table = dict(table)
        for st in stmts:
            if isinstance(st, ast.For) and not st.orelse and not _own_break(st.body):
                parts = _concat_parts(st.iter)
                if parts is None and isinstance(st.iter, ast.Name):
                    parts = table.get(st.iter.id)
                elif parts is not None and not all(_view_pure(p_) for p_ in parts):
                    parts = None
                if parts is not None:
                    body_st = _stored(st.body) | {n.id for n in ast.walk(st.target) if isinstance(n, ast.Name)}
                    free = set().union(*[_loaded(p_) for p_ in parts])
                    if not (free & body_st) and not (isinstance(st.iter, ast.Name) and st.iter.id in body_st):
                        for p_ in parts:
                            new = ast.For(target=copy.deepcopy(st.target), iter=copy.deepcopy(p_), body=block(copy.deepcopy(st.body), table), orelse=[],
                                          type_comment=None)
                            ast.copy_location(new, st)
                            ast.fix_missing_locations(new)
                            out.append(new)
                        continue
            inner_st = _stored([st])
            surviving = {k: v for k, v in table.items() if k not in inner_st and not (set().union(*[_loaded(p_) for p_ in v]) & inner_st)}
            for fld in ("body", "orelse", "finalbody"):
                b = getattr(st, fld, None)
                if isinstance(b, list) and b and isinstance(b[0], ast.stmt) and not isinstance(st, (ast.FunctionDef, ast.ClassDef, ast.AsyncFunctionDef)):
                    setattr(st, fld, block(b, surviving))
            if isinstance(st, ast.Try):
                for h in st.handlers:
                    h.body = block(h.body, surviving)
            table = surviving if not isinstance(st, (ast.Assign, ast.AnnAssign)) else {k: v for k, v in table.items() if k in surviving}
            if isinstance(st, ast.Assign) and len(st.targets) == 1 and isinstance(st.targets[0], ast.Name):
                parts = _concat_parts(st.value)
                if parts is not None and all(_view_pure(p_) for p_ in parts) and st.targets[0].id not in set().union(*[_loaded(p_) for p_ in parts]):
                    table[st.targets[0].id] = parts
            out.append(st)
        return out
    func.body = block(func.body, {})
    return func


# ------------------------------------------------------------------------------------- generators and records put back in place

def _single_yield(callee):
    """the one `yield E` statement of a generator that can be read as `emit(E)`: reached through for / if statements only; no
    other yield, no `yield from`, no return, not used as an expression -> the ast.Expr node, else None"""
    if not isinstance(callee, ast.FunctionDef) or callee.args.vararg or callee.args.kwarg or callee.args.posonlyargs:
        return None
    ys = [n for n in ast.walk(callee) if isinstance(n, (ast.Yield, ast.YieldFrom))]
    if len(ys) != 1 or not isinstance(ys[0], ast.Yield) or ys[0].value is None:
        return None
    if any(isinstance(n, (ast.Return, ast.Global, ast.Nonlocal, ast.Await)) for n in ast.walk(callee)):
        return None
    found = []

    def rec(stmts):
        for st in stmts:
            if isinstance(st, ast.Expr) and st.value is ys[0]:
                found.append(st)
            elif isinstance(st, (ast.For, ast.If)):
                rec(st.body)
                rec(st.orelse)
    rec(callee.body)
    return found[0] if len(found) == 1 else None


# ------------------------------------------------------------------------------------------------- generator helpers

def _generator_callee(callee) -> bool:
    """a helper whose body can be merged into the loop that consumes it: a plain generator function, every `yield E` a statement of
    its own (1..3 of them), no return, no yield from / send protocol, no try / with around the yields, no nested functions"""
    if not isinstance(callee, ast.FunctionDef):
        return False
    a = callee.args
    if a.vararg or a.kwarg or a.posonlyargs:
        return False
    yields, stmt_yields = 0, 0
    for n in ast.walk(callee):
        if n is not callee and isinstance(n, (ast.FunctionDef, ast.AsyncFunctionDef, ast.ClassDef, ast.Lambda)):
            return False
        if isinstance(n, (ast.YieldFrom, ast.Await, ast.Global, ast.Nonlocal, ast.Return, ast.Try, ast.With, ast.AsyncFor, ast.AsyncWith)):
            return False
        if isinstance(n, ast.Yield):
            yields += 1
            if n.value is None:
                return False
        if isinstance(n, ast.Expr) and isinstance(n.value, ast.Yield):
            stmt_yields += 1
    return 1 <= yields <= 6 and yields == stmt_yields


def _inline_generator_loops_multi(func, resolve, max_depth: int = 2):
    """`for T in h(args): B` with h a generator helper (resolve(call) -> (callee, receiver) | None)  ->  h's statements, parameters
    bound to the arguments and locals made unique (as inline_stmt_calls does), with every `yield E` replaced by `T = E` followed
    by B.  This is exactly the order in which the two pieces of code run: the generator up to its next yield, then the loop body
    with the yielded value, then the generator again.  Not applied when B leaves or restarts the loop (break / continue / else),
    or re-binds a name handed to the helper (the helper keeps the object it was called with)."""
    def expand(stmts, depth):
        out = []
        for st in stmts:
            for fld in ("body", "orelse", "finalbody"):
                b = getattr(st, fld, None)
                if isinstance(b, list) and b and isinstance(b[0], ast.stmt) and not isinstance(st, (ast.FunctionDef, ast.ClassDef, ast.AsyncFunctionDef)):
                    setattr(st, fld, expand(b, depth))
            if isinstance(st, ast.Try):
                for h in st.handlers:
                    h.body = expand(h.body, depth)
            if isinstance(st, ast.For) and not st.orelse and depth < max_depth:
                call = st.iter
                # tqdm(gen(..)) hands the items through one by one
                if isinstance(call, ast.Call) and isinstance(call.func, ast.Name) and call.func.id == "tqdm" and call.args and isinstance(call.args[0], ast.Call):
                    call = call.args[0]
                r = resolve(call) if isinstance(call, ast.Call) else None
                if r is not None and r[0] is not func and _generator_callee(r[0]) and not _top_level_jumps(st.body):
                    argnames = set().union(*[_loaded(a) for a in call.args], *[_loaded(k.value) for k in call.keywords], set())
                    tnames = {n.id for n in ast.walk(st.target) if isinstance(n, ast.Name)}
                    if not (argnames & (_rebound(st.body) | tnames)):
                        res = inline_stmts(r[0], call, r[1])
                        if res is not None:
                            body, _ = res
                            loop = st

                            class Y(ast.NodeTransformer):
                                def visit_Expr(self, n):
                                    if isinstance(n.value, ast.Yield):
                                        tgt = copy.deepcopy(loop.target)
                                        bind = ast.Assign(targets=[tgt], value=n.value.value)
                                        new = [bind] + [copy.deepcopy(b) for b in loop.body]
                                        for b in new:
                                            ast.copy_location(b, loop) if not hasattr(b, "lineno") else None
                                            ast.fix_missing_locations(b)
                                        return new
                                    return n
                            new = []
                            for b in body:
                                r_ = Y().visit(b)
                                new.extend(r_ if isinstance(r_, list) else [r_])
                            for b in new:
                                ast.copy_location(b, st) if not hasattr(b, "lineno") else None
                                ast.fix_missing_locations(b)
                            out.extend(expand(new, depth + 1))
                            continue
            out.append(st)
        return out
    func.body = expand(func.body, 0)
    return func




def _forward_generator_locals(func, resolve):
    """`terms = self._gen(a, b)` ... `for t in terms:` with `_gen` a generator helper and `terms` read nowhere else is
    `for t in self._gen(a, b):` -- calling a generator function runs none of its body, only the argument expressions are evaluated at
    the call; they must be plain names / constants / attribute chains that no statement in between re-binds.  Same block only."""
    loads = {}
    for n in ast.walk(func):
        if isinstance(n, ast.Name) and isinstance(n.ctx, ast.Load):
            loads[n.id] = loads.get(n.id, 0) + 1
    stores = {}
    for n in ast.walk(func):
        if isinstance(n, ast.Name) and isinstance(n.ctx, (ast.Store, ast.Del)):
            stores[n.id] = stores.get(n.id, 0) + 1

    def block(stmts):
        i = 0
        while i < len(stmts):
            st = stmts[i]
            for fld in ("body", "orelse", "finalbody"):
                b = getattr(st, fld, None)
                if isinstance(b, list) and b and isinstance(b[0], ast.stmt) and not isinstance(st, (ast.FunctionDef, ast.ClassDef, ast.AsyncFunctionDef)):
                    block(b)
            if isinstance(st, ast.Assign) and len(st.targets) == 1 and isinstance(st.targets[0], ast.Name) and isinstance(st.value, ast.Call):
                x, call = st.targets[0].id, st.value
                r = resolve(call)
                # (one-yield generators only: a generator with several yields usually hands over records of several kinds that the
                # consumer tells apart again -- reading that needs more than putting the pieces next to each other)
                if r is not None and r[0] is not func and _single_yield(r[0]) is not None \
                        and loads.get(x, 0) == 1 and stores.get(x, 0) == 1 \
                        and all(_pure(a) for a in call.args) and all(k.arg is not None and _pure(k.value) for k in call.keywords):
                    argnames = set().union(set(), *[_loaded(a) for a in call.args], *[_loaded(k.value) for k in call.keywords])
                    for j in range(i + 1, len(stmts)):
                        nxt = stmts[j]
                        if isinstance(nxt, ast.For) and isinstance(nxt.iter, ast.Name) and nxt.iter.id == x:
                            nxt.iter = call
                            del stmts[i]
                            i -= 1
                            break
                        if x in _loaded(nxt) or (argnames & _stored([nxt])):
                            break
            i += 1
    block(func.body)
    return func


def inline_generator_loops(func, resolve):
    """`for T in self._gen(args): BODY`, `_gen` a generator with ONE `yield E` reached through for / if only: the generator's
    statements with `yield E` replaced by `T = E; BODY` (parameters bound to the arguments, locals made unique) -- producer and
    consumer run interleaved in exactly this order.  resolve(call) -> (callee, receiver | None) | None.  Refused when BODY leaves
    its iteration early (break / continue) or the loop has an `else`."""
    _forward_generator_locals(func, resolve)

    def expand(stmts, depth):
        out = []
        for st in stmts:
            for fld in ("body", "orelse", "finalbody"):
                b = getattr(st, fld, None)
                if isinstance(b, list) and b and isinstance(b[0], ast.stmt) and not isinstance(st, (ast.FunctionDef, ast.ClassDef, ast.AsyncFunctionDef)):
                    setattr(st, fld, expand(b, depth))
            if isinstance(st, ast.For) and not st.orelse and isinstance(st.iter, ast.Call) and depth < 3 and not _top_level_jumps(st.body):
                r = resolve(st.iter)
                if r is not None and r[0] is not func and _single_yield(r[0]) is not None:
                    res = inline_stmts(r[0], st.iter, r[1])
                    if res is not None and res[1] is None:
                        body = res[0]
                        ys = [n for b in body for n in ast.walk(b) if isinstance(n, ast.Expr) and isinstance(n.value, ast.Yield)]
                        if len(ys) == 1:
                            bind = ast.Assign(targets=[copy.deepcopy(st.target)], value=ys[0].value.value)
                            for n in ast.walk(bind.targets[0]):
                                if isinstance(n, (ast.Name, ast.Tuple, ast.List, ast.Starred)):
                                    n.ctx = ast.Store()

                            class Put(ast.NodeTransformer):
                                def visit_Expr(self, n):
                                    return [bind] + st.body if n is ys[0] else n
                            new = []
                            for b in body:
                                x = Put().visit(b)
                                new.extend(x if isinstance(x, list) else [x])
                            for b in new:
                                ast.copy_location(b, st) if not hasattr(b, "lineno") else None
                                ast.fix_missing_locations(b)
                            out.extend(expand(new, depth + 1))
                            continue
            out.append(st)
        return out
    func.body = expand(func.body, 0)
    # generators with up to three yields (and tqdm(..) wrappers) are merged by the sibling pass
    return _inline_generator_loops_multi(func, resolve)


def scalarise_records(func, fields_of):
    """Scalar replacement of a record: `x = Rec(a, b, c)` (fields_of("Rec") -> its field names, in constructor order, or None) whose
    every use is a field read `x.f` becomes `x__f1 = a; x__f2 = b; x__f3 = c`, and `x.f` the local `x__f`.  A namedtuple / dataclass
    that only carries values from a producer to a consumer then disappears, and the values are followed as before."""
    cands = {}
    for n in ast.walk(func):
        if isinstance(n, ast.Assign) and len(n.targets) == 1 and isinstance(n.targets[0], ast.Name) and isinstance(n.value, ast.Call) \
                and isinstance(n.value.func, (ast.Name, ast.Attribute)):
            fields = fields_of(ast.unparse(n.value.func))
            if fields:
                cands.setdefault(n.targets[0].id, []).append((n, fields))
        elif isinstance(n, ast.Assign) and len(n.targets) == 1 and isinstance(n.targets[0], ast.Name) and isinstance(n.value, ast.Tuple) \
                and getattr(n.value, "_nt_fields", None) and len(n.value._nt_fields) == len(n.value.elts):
            # the constructor call was already written as its tagged tuple display (namedtuple_rows, applied when the module is parsed)
            cands.setdefault(n.targets[0].id, []).append((n, list(n.value._nt_fields)))
    if not cands:
        return func
    parent_attr = {}
    for n in ast.walk(func):
        if isinstance(n, ast.Attribute) and isinstance(n.value, ast.Name):
            parent_attr[id(n.value)] = n
    for n in ast.walk(func):
        if isinstance(n, ast.Name) and n.id in cands:
            if isinstance(n.ctx, ast.Load):
                a = parent_attr.get(id(n))
                if a is None or not isinstance(a.ctx, ast.Load) or not all(a.attr in f for _, f in cands[n.id]):
                    cands.pop(n.id)
            elif not any(n is asg.targets[0] for asg, _ in cands[n.id]):
                cands.pop(n.id)
        elif isinstance(n, ast.arg) and n.arg in cands:
            cands.pop(n.arg)
    plan = {}
    for name, lst in cands.items():
        for asg, fields in lst:
            c = asg.value
            if isinstance(c, ast.Tuple):
                plan[id(asg)] = (name, list(zip(fields, c.elts)))
                continue
            if any(isinstance(a, ast.Starred) for a in c.args) or any(k.arg is None or k.arg not in fields for k in c.keywords) or len(c.args) > len(fields):
                plan = None
                break
            given = dict(zip(fields, c.args))
            given.update({k.arg: k.value for k in c.keywords})
            if set(given) != set(fields) or len(given) != len(c.args) + len(c.keywords):
                plan = None
                break
            plan[id(asg)] = (name, [(f, given[f]) for f in list(fields[:len(c.args)]) + [k.arg for k in c.keywords]])
        if plan is None:
            return func

    class Tr(ast.NodeTransformer):
        def visit_Assign(self, n):
            if id(n) in plan:
                name, pairs = plan[id(n)]
                out = [ast.copy_location(ast.Assign(targets=[ast.Name(id=f"{name}__{f}", ctx=ast.Store())], value=self.visit(v)), n) for f, v in pairs]
                return [ast.fix_missing_locations(x) for x in out]
            return self.generic_visit(n)

        def visit_Attribute(self, n):
            if isinstance(n.value, ast.Name) and n.value.id in cands and isinstance(n.ctx, ast.Load):
                return ast.copy_location(ast.Name(id=f"{n.value.id}__{n.attr}", ctx=ast.Load()), n)
            return self.generic_visit(n)
    if plan:
        func = Tr().visit(func)
        ast.fix_missing_locations(func)
    return func


# ------------------------------------------------------------------------------------------ local helper objects

def scalarise_objects(func, class_of, max_objects: int = 4):
    """Scalar replacement of a LOCAL HELPER OBJECT.  `obj = Cls(a, b)` (class_of(<callee expression>) -> the ClassDef of a plain class of
    the package, or None) whose every other use in `func` is an attribute access `obj.field` or a method call `obj.meth(..)` never
    leaves the function: its constructor and its methods are put back in place (inline_stmts / inline_expr with the receiver renamed
    to `obj`) and every field `obj.f` becomes the local `obj__f`.  A class that only carries a few lists and the statements that fill
    them is then read as the straight-line code it abbreviates.  Refused (the function is returned unchanged) when the class has bases,
    decorators, properties / descriptors / dunder hooks other than __init__, class-level state that a method reads through self, when a
    method cannot be inlined where it is called, or when the object is handed on (argument, return value, alias, container)."""
    def plain_class(cd):
        if cd is None or cd.bases or cd.keywords or cd.decorator_list:
            return None
        meths, cattrs = {}, set()
        for st in cd.body:
            if isinstance(st, ast.FunctionDef):
                if st.decorator_list or (st.name.startswith("__") and st.name != "__init__"):
                    return None
                meths[st.name] = st
            elif isinstance(st, ast.Expr) and isinstance(st.value, ast.Constant):
                continue
            elif isinstance(st, (ast.Assign, ast.AnnAssign)):
                for t in (st.targets if isinstance(st, ast.Assign) else [st.target]):
                    if isinstance(t, ast.Name) and (isinstance(st, ast.Assign) or st.value is not None):
                        cattrs.add(t.id)
                    elif not isinstance(t, ast.Name):
                        return None
            elif isinstance(st, ast.Pass):
                continue
            else:
                return None
        init = meths.get("__init__")
        if init is None or _simple_callee(init) != "stmts" or not init.args.args:
            return None
        if cattrs:
            return None             # class-level state: `self.X` may mean the class attribute
        # the receiver is only ever used as `self.<name>` inside the methods
        for fn in meths.values():
            if not fn.args.args:
                return None
            me = fn.args.args[0].arg
            par = {}
            for n in ast.walk(fn):
                if isinstance(n, ast.Attribute) and isinstance(n.value, ast.Name):
                    par[id(n.value)] = n
            for n in ast.walk(fn):
                if isinstance(n, ast.Name) and n.id == me and (id(n) not in par or not isinstance(n.ctx, ast.Load)):
                    return None
        return meths

    done = 0
    for _ in range(max_objects):
        # one candidate at a time: `obj = Cls(..)` bound exactly once by a plain assignment
        binds = {}
        for n in ast.walk(func):
            if isinstance(n, ast.Name) and isinstance(n.ctx, (ast.Store, ast.Del)):
                binds[n.id] = binds.get(n.id, 0) + 1
            elif isinstance(n, ast.arg):
                binds[n.arg] = binds.get(n.arg, 0) + 2
        cand = None
        for n in ast.walk(func):
            if isinstance(n, ast.Assign) and len(n.targets) == 1 and isinstance(n.targets[0], ast.Name) and binds.get(n.targets[0].id) == 1 \
                    and isinstance(n.value, ast.Call) and isinstance(n.value.func, (ast.Name, ast.Attribute)):
                meths = plain_class(class_of(n.value.func))
                if meths is not None and not getattr(n, "_sa_obj_refused", False):
                    cand = (n, n.targets[0].id, meths)
                    break
        if cand is None:
            break
        asg, obj, meths = cand
        asg._sa_obj_refused = True          # (not tried again if the attempt below is abandoned)
        work = copy.deepcopy(func)
        wasg = next(n for n in ast.walk(work) if isinstance(n, ast.Assign) and getattr(n, "_sa_obj_refused", False) and len(n.targets) == 1
                    and isinstance(n.targets[0], ast.Name) and n.targets[0].id == obj)
        recv = ast.Name(id=obj, ctx=ast.Load())

        def resolve(call, _meths=meths, _obj=obj):
            f_ = call.func
            if isinstance(f_, ast.Attribute) and isinstance(f_.value, ast.Name) and f_.value.id == _obj and f_.attr in _meths and f_.attr != "__init__":
                return _meths[f_.attr], ast.Name(id=_obj, ctx=ast.Load())
            return None
        res = inline_stmts(meths["__init__"], wasg.value, recv)
        if res is None or res[1] is not None:
            continue
        init_body = res[0]
        for b in init_body:
            ast.copy_location(b, wasg)
            ast.fix_missing_locations(b)

        class PutInit(ast.NodeTransformer):
            def visit_Assign(self, n):
                return init_body if n is wasg else n
        work = PutInit().visit(work)

        # single-expression methods anywhere in an expression, then whole-statement / hoistable calls of straight-line methods
        class ExprCalls(ast.NodeTransformer):
            def visit_Call(self, n):
                self.generic_visit(n)
                r = resolve(n)
                if r is not None and _simple_callee(r[0]) == "expr":
                    e = inline_expr(r[0], n, r[1])
                    if e is not None:
                        return ast.copy_location(e, n)
                return n
        for _k in range(3):
            work = ExprCalls().visit(work)
            work = inline_stmt_calls(work, resolve)
        ast.fix_missing_locations(work)
        # what is left of `obj` must be plain field accesses
        par = {}
        for n in ast.walk(work):
            if isinstance(n, ast.Attribute) and isinstance(n.value, ast.Name):
                par[id(n.value)] = n
        ok = True
        for n in ast.walk(work):
            if isinstance(n, ast.Name) and n.id == obj:
                a = par.get(id(n))
                if a is None or not isinstance(n.ctx, ast.Load) or a.attr in meths:
                    ok = False
                    break
        if not ok:
            continue
        taken = {n.id for n in ast.walk(work) if isinstance(n, ast.Name)}

        class Fields(ast.NodeTransformer):
            def visit_Attribute(self, n):
                if isinstance(n.value, ast.Name) and n.value.id == obj:
                    return ast.copy_location(ast.Name(id=f"{obj}__{n.attr}", ctx=n.ctx), n)
                return self.generic_visit(n)
        if any(f"{obj}__{a.attr}" in taken for a in par.values() if isinstance(a.value, ast.Name) and a.value.id == obj):
            continue
        func = ast.fix_missing_locations(Fields().visit(work))
        done += 1
    return func


# ------------------------------------------------------------------------------------------ list of rows <-> row-major table

def _flatten_call(e, m):
    """is `e` the row-major flattening of the list of rows named m?  list(chain.from_iterable(m)) / list(chain(*m)) / sum(m, []) /
    [x for r in m for x in r]"""
    if isinstance(e, ast.Call) and isinstance(e.func, ast.Name) and e.func.id in ("list", "tuple") and len(e.args) == 1 and not e.keywords:
        return _flatten_call(e.args[0], m) or _flatten_call_inner(e.args[0], m)
    if isinstance(e, ast.Call) and isinstance(e.func, ast.Name) and e.func.id == "sum" and len(e.args) == 2 and not e.keywords \
            and isinstance(e.args[0], ast.Name) and e.args[0].id == m and isinstance(e.args[1], ast.List) and not e.args[1].elts:
        return True
    if isinstance(e, ast.ListComp) and len(e.generators) == 2 and not any(g.ifs for g in e.generators) \
            and isinstance(e.generators[0].iter, ast.Name) and e.generators[0].iter.id == m and isinstance(e.generators[0].target, ast.Name) \
            and isinstance(e.generators[1].iter, ast.Name) and e.generators[1].iter.id == e.generators[0].target.id \
            and isinstance(e.generators[1].target, ast.Name) and isinstance(e.elt, ast.Name) and e.elt.id == e.generators[1].target.id:
        return True
    return False


def _flatten_call_inner(e, m):
    if isinstance(e, ast.Call) and not e.keywords and len(e.args) == 1:
        f = ast.unparse(e.func)
        a = e.args[0]
        if f in ("chain.from_iterable", "itertools.chain.from_iterable") and isinstance(a, ast.Name) and a.id == m:
            return True
        if f in ("chain", "itertools.chain") and isinstance(a, ast.Starred) and isinstance(a.value, ast.Name) and a.value.id == m:
            return True
    return False


def flatten_row_tables(func):
    """Change of representation put back: a local table kept as a list of rows

        M = [[c] * NC for _ in range(NR)]  ...  M[a][b] (read, store, +=)  ...  r = M[a]; r[b] ...  F = list(chain.from_iterable(M))

    is the row-major flat table `M = [c] * NR * NC`, `M[a * NC + b]`, `F` being `M` itself.  Applied only when EVERY use of M (and of
    a row alias r, and the single binding of F) has one of these forms, NC is a name bound once, and M is not used after F was
    cut from it (so that no write is lost); otherwise the function is left as it is."""
    assigned = {}
    for n in ast.walk(func):
        if isinstance(n, ast.Name) and isinstance(n.ctx, (ast.Store, ast.Del)):
            assigned[n.id] = assigned.get(n.id, 0) + 1
    for a_ in func.args.args + func.args.kwonlyargs:
        assigned[a_.arg] = assigned.get(a_.arg, 0) + 1
    parent = {}
    for n in ast.walk(func):
        for ch in ast.iter_child_nodes(n):
            parent[id(ch)] = n

    def table_init(v):
        """(cell, NR, NC) of `[[c] * NC for _ in range(NR)]` / `[[c for _ in range(NC)] for _ in range(NR)]`"""
        if not (isinstance(v, ast.ListComp) and len(v.generators) == 1 and not v.generators[0].ifs and isinstance(v.generators[0].target, ast.Name)):
            return None
        g = v.generators[0]
        if not (isinstance(g.iter, ast.Call) and isinstance(g.iter.func, ast.Name) and g.iter.func.id == "range" and len(g.iter.args) == 1 and not g.iter.keywords):
            return None
        nr, e = g.iter.args[0], v.elt
        if isinstance(e, ast.BinOp) and isinstance(e.op, ast.Mult):
            lst, nc = (e.left, e.right) if isinstance(e.left, ast.List) else (e.right, e.left)
            if isinstance(lst, ast.List) and len(lst.elts) == 1 and isinstance(lst.elts[0], ast.Constant):
                cell = lst.elts[0]
            else:
                return None
        elif isinstance(e, ast.ListComp) and len(e.generators) == 1 and not e.generators[0].ifs and isinstance(e.elt, ast.Constant) \
                and isinstance(e.generators[0].iter, ast.Call) and isinstance(e.generators[0].iter.func, ast.Name) and e.generators[0].iter.func.id == "range" \
                and len(e.generators[0].iter.args) == 1:
            cell, nc = e.elt, e.generators[0].iter.args[0]
        else:
            return None
        if not (isinstance(nc, ast.Name) and isinstance(nr, ast.Name) and assigned.get(nc.id, 0) == 1 and assigned.get(nr.id, 0) == 1):
            return None
        if g.target.id in (nc.id, nr.id):
            return None
        return cell, nr, nc
    for init in [n for n in ast.walk(func) if isinstance(n, ast.Assign) and len(n.targets) == 1 and isinstance(n.targets[0], ast.Name)]:
        m = init.targets[0].id
        t = table_init(init.value)
        if t is None or assigned.get(m, 0) != 1:
            continue
        cell, nr, nc = t
        uses = [n for n in ast.walk(func) if isinstance(n, ast.Name) and n.id == m and n is not init.targets[0]]
        cells, aliases, flat = [], [], []
        ok = True
        for u in uses:
            p1 = parent.get(id(u))
            p2 = parent.get(id(p1)) if p1 is not None else None
            if isinstance(p1, ast.Subscript) and p1.value is u and not isinstance(p1.slice, ast.Slice):
                if isinstance(p2, ast.Subscript) and p2.value is p1 and not isinstance(p2.slice, ast.Slice):
                    cells.append((p2, p1.slice, p2.slice))
                    continue
                if isinstance(p2, ast.Assign) and p2.value is p1 and len(p2.targets) == 1 and isinstance(p2.targets[0], ast.Name) \
                        and assigned.get(p2.targets[0].id, 0) == 1 and isinstance(p1.ctx, ast.Load) \
                        and all(assigned.get(x, 0) <= 1 for x in _loaded(p1.slice)):
                    aliases.append((p2, p2.targets[0].id, p1.slice))
                    continue
            # the flattening statement  F = list(chain.from_iterable(M))
            q = u
            while id(q) in parent and not isinstance(parent[id(q)], ast.stmt):
                q = parent[id(q)]
            stq = parent.get(id(q))
            if isinstance(stq, ast.Assign) and len(stq.targets) == 1 and isinstance(stq.targets[0], ast.Name) and assigned.get(stq.targets[0].id, 0) == 1 \
                    and _flatten_call(stq.value, m) and stq in func.body:
                flat.append(stq)
                continue
            ok = False
            break
        if not ok or len(flat) != 1 or not cells and not aliases:
            continue
        fst = flat[0]
        fname = fst.targets[0].id
        # nothing touches the rows after the flat copy was taken, the flat name is not used before it exists
        later = func.body[func.body.index(fst) + 1:]
        if any(isinstance(n, ast.Name) and n.id in {m} | {a[1] for a in aliases} for st in later for n in ast.walk(st)):
            continue
        earlier = func.body[:func.body.index(fst)]
        if any(isinstance(n, ast.Name) and n.id == fname for st in earlier for n in ast.walk(st)):
            continue
        # every use of a row alias is r[b]
        alias_cells = []
        for asg, r, a in aliases:
            for n in ast.walk(func):
                if isinstance(n, ast.Name) and n.id == r and n is not asg.targets[0]:
                    p1 = parent.get(id(n))
                    if isinstance(p1, ast.Subscript) and p1.value is n and not isinstance(p1.slice, ast.Slice):
                        alias_cells.append((p1, a, p1.slice))
                    else:
                        ok = False
        if not ok:
            continue

        def flat_index(a, b):
            return ast.BinOp(left=ast.BinOp(left=copy.deepcopy(a), op=ast.Mult(), right=ast.Name(id=nc.id, ctx=ast.Load())), op=ast.Add(), right=copy.deepcopy(b))
        for node, a, b in cells + alias_cells:
            node.value = ast.Name(id=m, ctx=ast.Load())
            node.slice = flat_index(a, b)
        init.value = ast.BinOp(left=ast.BinOp(left=ast.List(elts=[cell], ctx=ast.Load()), op=ast.Mult(), right=ast.Name(id=nr.id, ctx=ast.Load())),
                               op=ast.Mult(), right=ast.Name(id=nc.id, ctx=ast.Load()))
        drop = {id(asg) for asg, _, _ in aliases} | {id(fst)}

        class Tr(ast.NodeTransformer):
            def visit_Assign(self, n):
                return None if id(n) in drop else self.generic_visit(n)

            def visit_Name(self, n):
                if n.id == fname:
                    n.id = m
                return n
        func = Tr().visit(func)
        for n in ast.walk(func):
            for fld in ("body", "orelse", "finalbody"):
                b = getattr(n, fld, None)
                if isinstance(b, list) and not b and fld == "body" and isinstance(n, (ast.For, ast.While, ast.If, ast.With)):
                    n.body = [ast.Pass()]
        ast.fix_missing_locations(func)
        return flatten_row_tables(func)       # (parents changed: start over for a further table)
    return func


def flatten_keyed_tables(func):
    """Change of representation put back: a sparse table kept as a dict keyed by (row, column)

        M = {}  ...  M[(a, b)] = M.get((a, b), c) + t  ...  if (a, b) in M: M[(a, b)] = g(M[(a, b)])  ...
        F = [M.get((r, q), c) for r in range(NR) for q in range(NC)]

    is the dense row-major table `M = [c] * NR * NC` with `M[a * NC + b] += t`, `M[a * NC + b] != c` for the membership test (an
    entry exists iff something was added to the default), F being M itself.  Applied only when EVERY use of M has one of these
    forms with one and the same default c, NR / NC are names bound once before M, and M is not used after F was cut from it."""
    assigned, first_store = {}, {}
    for i, st in enumerate(func.body):
        for n in ast.walk(st):
            if isinstance(n, ast.Name) and isinstance(n.ctx, (ast.Store, ast.Del)):
                first_store.setdefault(n.id, i)
    for n in ast.walk(func):
        if isinstance(n, ast.Name) and isinstance(n.ctx, (ast.Store, ast.Del)):
            assigned[n.id] = assigned.get(n.id, 0) + 1
    params = {a.arg for a in ast.walk(func.args) if isinstance(a, ast.arg)}

    def key2(k):
        return (k.elts[0], k.elts[1]) if isinstance(k, ast.Tuple) and len(k.elts) == 2 and not any(isinstance(e, ast.Starred) for e in k.elts) else None

    for fi, fst in enumerate(func.body):
        if not (isinstance(fst, ast.Assign) and len(fst.targets) == 1 and isinstance(fst.targets[0], ast.Name) and isinstance(fst.value, ast.ListComp)
                and len(fst.value.generators) == 2 and not any(g.ifs for g in fst.value.generators)):
            continue
        g0, g1 = fst.value.generators
        rng = lambda g: g.iter.args[0] if (isinstance(g.iter, ast.Call) and isinstance(g.iter.func, ast.Name) and g.iter.func.id == "range"
                                           and len(g.iter.args) == 1 and not g.iter.keywords and isinstance(g.target, ast.Name)) else None
        nr, nc = rng(g0), rng(g1)
        e = fst.value.elt
        if nr is None or nc is None or not isinstance(nr, ast.Name) or not isinstance(nc, ast.Name):
            continue
        m = default = None
        if isinstance(e, ast.Call) and isinstance(e.func, ast.Attribute) and e.func.attr == "get" and isinstance(e.func.value, ast.Name) and len(e.args) == 2 \
                and not e.keywords and isinstance(e.args[1], ast.Constant):
            m, k, default = e.func.value.id, key2(e.args[0]), e.args[1]
        elif isinstance(e, ast.Subscript) and isinstance(e.value, ast.Name):
            m, k = e.value.id, key2(e.slice)
        else:
            continue
        if k is None or not all(isinstance(x, ast.Name) for x in k) or (k[0].id, k[1].id) != (g0.target.id, g1.target.id):
            continue
        fname = fst.targets[0].id
        inits = [(i, st) for i, st in enumerate(func.body[:fi]) if isinstance(st, ast.Assign) and len(st.targets) == 1 and isinstance(st.targets[0], ast.Name)
                 and st.targets[0].id == m]
        if len(inits) != 1 or assigned.get(m, 0) != 1 or assigned.get(fname, 0) != 1 or m in params:
            continue
        ii, init = inits[0]
        iv = init.value
        if isinstance(iv, ast.Dict) and not iv.keys or (isinstance(iv, ast.Call) and ast.unparse(iv.func) == "dict" and not iv.args and not iv.keywords):
            pass
        elif isinstance(iv, ast.Call) and ast.unparse(iv.func).split(".")[-1] == "defaultdict" and len(iv.args) == 1 and isinstance(iv.args[0], ast.Lambda) \
                and not iv.args[0].args.args and isinstance(iv.args[0].body, ast.Constant):
            if default is not None and default.value != iv.args[0].body.value:
                continue
            default = iv.args[0].body
        else:
            continue
        if default is None:
            continue
        for nm in (nr.id, nc.id):
            if not (nm in params or (assigned.get(nm, 0) == 1 and first_store.get(nm, 10 ** 9) < ii)):
                default = None
        if default is None:
            continue
        if any(isinstance(n, ast.Name) and n.id == m for st in func.body[fi + 1:] for n in ast.walk(st)) or \
                any(isinstance(n, ast.Name) and n.id == fname for st in func.body[:fi] for n in ast.walk(st)):
            continue
        # classify every use of M between its initialisation and the flattening
        parent = {}
        for st in func.body[:fi]:
            for n in ast.walk(st):
                for ch in ast.iter_child_nodes(n):
                    parent[id(ch)] = n
        plan, ok = [], True

        def flat(k_):
            return ast.BinOp(left=ast.BinOp(left=copy.deepcopy(k_[0]), op=ast.Mult(), right=ast.Name(id=nc.id, ctx=ast.Load())), op=ast.Add(), right=copy.deepcopy(k_[1]))
        for st in func.body[:fi]:
            for u in [n for n in ast.walk(st) if isinstance(n, ast.Name) and n.id == m and n is not init.targets[0]]:
                p1 = parent.get(id(u))
                p2 = parent.get(id(p1)) if p1 is not None else None
                if isinstance(p1, ast.Subscript) and p1.value is u and key2(p1.slice) is not None:
                    plan.append(("sub", p1, key2(p1.slice)))
                elif isinstance(p1, ast.Attribute) and p1.attr == "get" and isinstance(p2, ast.Call) and p2.func is p1 and len(p2.args) == 2 and not p2.keywords \
                        and key2(p2.args[0]) is not None and isinstance(p2.args[1], ast.Constant) and p2.args[1].value == default.value:
                    plan.append(("get", p2, key2(p2.args[0])))
                elif isinstance(p1, ast.Compare) and len(p1.ops) == 1 and isinstance(p1.ops[0], (ast.In, ast.NotIn)) and p1.comparators[0] is u and key2(p1.left) is not None:
                    plan.append(("in", p1, key2(p1.left)))
                else:
                    ok = False
        if not ok or not plan:
            continue
        for kind, node, k_ in plan:
            if kind == "sub":
                node.slice = flat(k_)
            elif kind == "get":
                new = ast.Subscript(value=ast.Name(id=m, ctx=ast.Load()), slice=flat(k_), ctx=ast.Load())
                par = parent[id(node)]
                for fld, val in ast.iter_fields(par):
                    if val is node:
                        setattr(par, fld, new)
                    elif isinstance(val, list):
                        for j, x in enumerate(val):
                            if x is node:
                                val[j] = new
            else:
                negate = isinstance(node.ops[0], ast.NotIn)
                node.left = ast.Subscript(value=ast.Name(id=m, ctx=ast.Load()), slice=flat(k_), ctx=ast.Load())
                node.ops = [ast.Eq() if negate else ast.NotEq()]
                node.comparators = [ast.Constant(value=default.value)]
        init.value = ast.BinOp(left=ast.BinOp(left=ast.List(elts=[ast.Constant(value=default.value)], ctx=ast.Load()), op=ast.Mult(), right=ast.Name(id=nr.id, ctx=ast.Load())),
                               op=ast.Mult(), right=ast.Name(id=nc.id, ctx=ast.Load()))
        del func.body[fi]
        func.body[fi:] = [_Rename({fname: m}).visit(b) for b in func.body[fi:]]
        ast.fix_missing_locations(func)
        return flatten_keyed_tables(func)
    return func


# ----------------------------------------------------------------------------------------------------------- copy coalescing

def join_piece_tables(func):
    """Change of representation put back: a table of texts kept as a table of PIECE LISTS that are joined once at the end

        T = [[c] for _ in range(N)]   ...   T[i].append(t)   ...   X = ["".join(ps) for ps in T]

    is the table of strings `T = [c] * N` with `T[i] += t` (text concatenation), X being T itself.  Applied only when T is bound once
    at the top level, EVERY other use of T is a whole-statement `T[<index>].append(<one piece>)` before the join or the join itself (a
    top-level statement, the empty separator), and T is not used after the join."""
    nbind = {}
    for n in ast.walk(func):
        if isinstance(n, ast.Name) and isinstance(n.ctx, (ast.Store, ast.Del)):
            nbind[n.id] = nbind.get(n.id, 0) + 1
        elif isinstance(n, ast.arg):
            nbind[n.arg] = nbind.get(n.arg, 0) + 2
    for ii, init in enumerate(list(func.body)):
        if not (isinstance(init, ast.Assign) and len(init.targets) == 1 and isinstance(init.targets[0], ast.Name) and nbind.get(init.targets[0].id) == 1
                and isinstance(init.value, ast.ListComp) and len(init.value.generators) == 1 and not init.value.generators[0].ifs
                and isinstance(init.value.elt, ast.List) and len(init.value.elt.elts) == 1 and not isinstance(init.value.elt.elts[0], ast.Starred)):
            continue
        T = init.targets[0].id
        g = init.value.generators[0]
        if not (isinstance(g.iter, ast.Call) and isinstance(g.iter.func, ast.Name) and g.iter.func.id == "range" and len(g.iter.args) == 1 and not g.iter.keywords
                and isinstance(g.target, ast.Name) and g.target.id not in _loaded(init.value.elt) and _pure(init.value.elt.elts[0]) and _pure(g.iter.args[0])):
            continue
        # the join
        ji = None
        for k in range(ii + 1, len(func.body)):
            st = func.body[k]
            if isinstance(st, ast.Assign) and len(st.targets) == 1 and isinstance(st.targets[0], ast.Name) and isinstance(st.value, ast.ListComp) \
                    and len(st.value.generators) == 1 and not st.value.generators[0].ifs and isinstance(st.value.generators[0].iter, ast.Name) \
                    and st.value.generators[0].iter.id == T and isinstance(st.value.generators[0].target, ast.Name):
                e = st.value.elt
                if isinstance(e, ast.Call) and isinstance(e.func, ast.Attribute) and e.func.attr == "join" and isinstance(e.func.value, ast.Constant) \
                        and e.func.value.value == "" and len(e.args) == 1 and not e.keywords and isinstance(e.args[0], ast.Name) \
                        and e.args[0].id == st.value.generators[0].target.id:
                    ji = k
                    break
        if ji is None:
            continue
        uses = [n for b in func.body for n in ast.walk(b) if isinstance(n, ast.Name) and n.id == T]
        appends = []
        for b in func.body[ii + 1:ji]:
            for n in ast.walk(b):
                if isinstance(n, ast.Expr) and isinstance(n.value, ast.Call) and isinstance(n.value.func, ast.Attribute) and n.value.func.attr == "append" \
                        and isinstance(n.value.func.value, ast.Subscript) and isinstance(n.value.func.value.value, ast.Name) and n.value.func.value.value.id == T \
                        and len(n.value.args) == 1 and not n.value.keywords and not isinstance(n.value.args[0], ast.Starred) \
                        and T not in _loaded(n.value.func.value.slice) and T not in _loaded(n.value.args[0]):
                    appends.append(n)
        if len(uses) != len(appends) + 2:
            continue
        ids = {id(n): n for n in appends}

        class Tr(ast.NodeTransformer):
            def visit_Expr(self, n):
                if id(n) in ids:
                    sub = n.value.func.value
                    sub.ctx = ast.Store()
                    return ast.copy_location(ast.AugAssign(target=sub, op=ast.Add(), value=n.value.args[0]), n)
                return n
        for k in range(ii + 1, ji):
            func.body[k] = Tr().visit(func.body[k])
        init.value = ast.copy_location(ast.BinOp(left=ast.List(elts=[init.value.elt.elts[0]], ctx=ast.Load()), op=ast.Mult(), right=g.iter.args[0]), init.value)
        func.body[ji].value = ast.copy_location(ast.Name(id=T, ctx=ast.Load()), func.body[ji].value)
        ast.fix_missing_locations(func)
    return func


def join_term_lists(func):
    """A table of strings kept as a table of PIECE LISTS and joined once at the end --

        T = [["0.0"] for _ in range(n)]   ...   T[i].append(term)   ...   X = ["".join(pieces) for pieces in T]

    -- is the table of strings `T = ["0.0"] * n` ... `T[i] += term` ... `X = T`: joining the pieces with "" in the order they were
    appended is the concatenation.  Only when T is bound once (that comprehension: constant string pieces, a counting loop whose
    variable the element does not use), every other use of T is `T[<index>].append(<one argument>)` as a statement or the one
    joining comprehension, which stands at the top level of the function after every append.  (In place; returns func.)"""
    binds, joins = {}, {}
    for i, st in enumerate(func.body):
        if not (isinstance(st, ast.Assign) and len(st.targets) == 1 and isinstance(st.targets[0], ast.Name) and isinstance(st.value, ast.ListComp)):
            continue
        c = st.value
        if len(c.generators) != 1 or c.generators[0].ifs or c.generators[0].is_async:
            continue
        g = c.generators[0]
        if isinstance(c.elt, ast.List) and c.elt.elts and all(isinstance(e, ast.Constant) and isinstance(e.value, str) for e in c.elt.elts) \
                and isinstance(g.iter, ast.Call) and isinstance(g.iter.func, ast.Name) and g.iter.func.id == "range" and len(g.iter.args) == 1 and not g.iter.keywords \
                and isinstance(g.target, ast.Name):
            binds[st.targets[0].id] = i
        elif isinstance(g.iter, ast.Name) and isinstance(g.target, ast.Name) and isinstance(c.elt, ast.Call) and isinstance(c.elt.func, ast.Attribute) \
                and c.elt.func.attr == "join" and isinstance(c.elt.func.value, ast.Constant) and c.elt.func.value.value == "" and not c.elt.keywords \
                and len(c.elt.args) == 1 and isinstance(c.elt.args[0], ast.Name) and c.elt.args[0].id == g.target.id:
            joins.setdefault(g.iter.id, []).append(i)
    for T, bi in binds.items():
        if len(joins.get(T, ())) != 1 or joins[T][0] <= bi:
            continue
        ji = joins[T][0]
        nstores = sum(1 for n in ast.walk(func) if isinstance(n, ast.Name) and n.id == T and isinstance(n.ctx, (ast.Store, ast.Del)))
        if nstores != 1 or T in {a.arg for a in ast.walk(func.args) if isinstance(a, ast.arg)}:
            continue
        # every load of T: the join's iterable, or the base of `T[i].append(x)` in an expression statement before the join
        appends = []
        okuse = True
        allowed = {id(func.body[ji].value.generators[0].iter)}
        for k, top in enumerate(func.body):
            for n in ast.walk(top):
                if isinstance(n, ast.Expr) and isinstance(n.value, ast.Call) and isinstance(n.value.func, ast.Attribute) and n.value.func.attr == "append" \
                        and isinstance(n.value.func.value, ast.Subscript) and isinstance(n.value.func.value.value, ast.Name) and n.value.func.value.value.id == T \
                        and len(n.value.args) == 1 and not n.value.keywords and not isinstance(n.value.args[0], ast.Starred) and bi < k < ji:
                    appends.append(n)
                    allowed.add(id(n.value.func.value.value))
        for n in ast.walk(func):
            if isinstance(n, ast.Name) and n.id == T and isinstance(n.ctx, ast.Load) and id(n) not in allowed:
                okuse = False
        if not okuse:
            continue
        b = func.body[bi]
        cell = ast.Constant(value="".join(e.value for e in b.value.elt.elts))
        # (`[c] * (a * b)` is spelled `[c] * a * b`, the form the size rules know)
        factors, todo = [], [b.value.generators[0].iter.args[0]]
        while todo:
            e = todo.pop()
            if isinstance(e, ast.BinOp) and isinstance(e.op, ast.Mult):
                todo += [e.right, e.left]
            else:
                factors.append(e)
        val = ast.List(elts=[cell], ctx=ast.Load())
        for e in factors:
            val = ast.BinOp(left=val, op=ast.Mult(), right=e)
        b.value = val
        ast.fix_missing_locations(ast.copy_location(b.value, b))
        ids = {id(n) for n in appends}

        class Rw(ast.NodeTransformer):
            def visit_Expr(self, n):
                if id(n) not in ids:
                    return n
                sub = n.value.func.value
                sub.ctx = ast.Store()
                return ast.fix_missing_locations(ast.copy_location(ast.AugAssign(target=sub, op=ast.Add(), value=n.value.args[0]), n))
        func.body[bi + 1:ji] = [Rw().visit(st) for st in func.body[bi + 1:ji]]
        j = func.body[ji]
        j.value = ast.copy_location(ast.Name(id=T, ctx=ast.Load()), j.value)
    return func


_PURE_METHODS = {"index", "get", "keys", "values", "items", "copy", "strip", "lstrip", "rstrip", "lower", "upper", "format", "join", "split", "count",
                 "startswith", "endswith", "replace"}
_PURE_BUILTINS = {"len", "str", "int", "float", "bool", "enumerate", "zip", "range", "list", "tuple", "sorted", "reversed", "min", "max", "sum", "abs", "repr", "tqdm"}


def _calls_pure(e, is_record) -> bool:
    """every call inside `e` builds a value without touching anything else: a record constructor (is_record(name)), a builtin that only
    reads its arguments, a read-only method of str / list / dict"""
    for n in ast.walk(e):
        if isinstance(n, (ast.Await, ast.Yield, ast.YieldFrom, ast.NamedExpr, ast.Lambda)):
            return False
        if isinstance(n, ast.Call):
            f = n.func
            if isinstance(f, ast.Name) and (f.id in _PURE_BUILTINS or is_record(f.id)):
                continue
            if isinstance(f, ast.Attribute) and f.attr in _PURE_METHODS:
                continue
            return False
    return True


def fuse_collected_loops(func, is_record=lambda name: False):
    """Items collected first and consumed by ONE loop afterwards --

        L = [E1 for T1 in S1]            (also `+ [..]`, `+ list(E for ..)`, and `L.extend(E2 for T2 in S2)` statements)
        for T in L: BODY

    -- is `for T1 in S1: T = E1; BODY` followed by `for T2 in S2: T = E2; BODY`: the same items reach BODY in the same order.  The
    evaluation of the items moves from before the loop into it, so this is done only when that cannot be observed: the element /
    filter expressions contain nothing but pure calls (_calls_pure), BODY (and every statement between the collection and the loop)
    stores or mutates no name the collection reads, and BODY has no `break` / `else`.  L must be read by that loop only.  One
    generator per comprehension; its filters become `if`s around the body.  (In place; returns func.)"""
    loads = {}
    for n in ast.walk(func):
        if isinstance(n, ast.Name) and isinstance(n.ctx, ast.Load):
            loads[n.id] = loads.get(n.id, 0) + 1

    def comps_of(e):
        """[comprehension, ..] when e is a concatenation of list comprehensions / list(generator) / generator expressions"""
        if isinstance(e, ast.BinOp) and isinstance(e.op, ast.Add):
            l, r = comps_of(e.left), comps_of(e.right)
            return l + r if l is not None and r is not None else None
        if isinstance(e, ast.Call) and isinstance(e.func, ast.Name) and e.func.id in ("list", "tuple") and len(e.args) == 1 and not e.keywords:
            return comps_of(e.args[0]) if isinstance(e.args[0], (ast.GeneratorExp, ast.ListComp)) else None
        if isinstance(e, (ast.ListComp, ast.GeneratorExp)) and len(e.generators) == 1 and not e.generators[0].is_async and _calls_pure(e, is_record):
            return [e]
        if isinstance(e, ast.List) and not e.elts:
            return []
        return None

    def block(stmts):
        i = 0
        while i < len(stmts):
            st = stmts[i]
            for fld in ("body", "orelse", "finalbody"):
                b = getattr(st, fld, None)
                if isinstance(b, list) and b and isinstance(b[0], ast.stmt) and not isinstance(st, (ast.FunctionDef, ast.ClassDef, ast.AsyncFunctionDef)):
                    block(b)
            parts = comps_of(st.value) if isinstance(st, ast.Assign) and len(st.targets) == 1 and isinstance(st.targets[0], ast.Name) else None
            if parts is not None:
                L = st.targets[0].id
                drop = [i]
                j = i + 1
                done = None
                while j < len(stmts):
                    nx = stmts[j]
                    read = set().union(set(), *[_loaded(c) for c in parts])
                    if isinstance(nx, ast.Expr) and isinstance(nx.value, ast.Call) and isinstance(nx.value.func, ast.Attribute) and nx.value.func.attr == "extend" \
                            and isinstance(nx.value.func.value, ast.Name) and nx.value.func.value.id == L and len(nx.value.args) == 1 and not nx.value.keywords:
                        more = comps_of(nx.value.args[0])
                        if more is None or L in _loaded(nx.value.args[0]):
                            break
                        parts = parts + more
                        drop.append(j)
                    elif isinstance(nx, ast.For) and isinstance(nx.iter, ast.Name) and nx.iter.id == L:
                        n_ext = len(drop) - 1
                        if loads.get(L, 0) == 1 + n_ext and parts and not nx.orelse and not _own_break(nx.body) \
                                and not (read & (_stored(nx.body) | {n.id for n in ast.walk(nx.target) if isinstance(n, ast.Name)})) \
                                and not any({n.id for n in ast.walk(c.generators[0].target) if isinstance(n, ast.Name)} & (_loaded(nx) | _stored([nx])) for c in parts):
                            done = j
                        break
                    elif L in _loaded(nx) or L in _stored([nx]) or (read & _stored([nx])):
                        break
                    j += 1
                if done is not None:
                    loop = stmts[done]
                    new = []
                    for c in parts:
                        g = c.generators[0]
                        bind = ast.Assign(targets=[copy.deepcopy(loop.target)], value=copy.deepcopy(c.elt))
                        body = [bind] + copy.deepcopy(loop.body)
                        for cond in reversed(g.ifs):
                            body = [ast.If(test=copy.deepcopy(cond), body=body, orelse=[])]
                        f = ast.For(target=copy.deepcopy(g.target), iter=copy.deepcopy(g.iter), body=body, orelse=[], type_comment=None)
                        for n in ast.walk(f.target):
                            if isinstance(n, (ast.Name, ast.Tuple, ast.List, ast.Starred)):
                                n.ctx = ast.Store()
                        ast.copy_location(f, loop)
                        for n in ast.walk(f):
                            if not hasattr(n, "lineno"):
                                ast.copy_location(n, loop)
                        ast.fix_missing_locations(f)
                        new.append(f)
                    stmts[done:done + 1] = new
                    for k in reversed(drop):
                        del stmts[k]
                    i -= 1
            i += 1
    block(func.body)
    return func


def coalesce_copies(func):
    """Copy coalescing at the top level of a function: `A = x` / `A, B = x, y` where the local x is not used afterwards and the name A
    does not occur before, is the same program with x spelled A from the start (the copy statement disappears).  This is what is
    left of `A, B = self._stage(..)` after the stage was inlined: the tables the stage built and returned are the caller's tables."""
    params = {a.arg for a in ast.walk(func.args) if isinstance(a, ast.arg)}
    changed = True
    while changed:
        changed = False
        for i, st in enumerate(func.body):
            if not (isinstance(st, ast.Assign) and len(st.targets) == 1):
                continue
            t, v = st.targets[0], st.value
            if isinstance(t, ast.Name) and isinstance(v, ast.Name):
                pairs = [(t.id, v.id)]
            elif isinstance(t, (ast.Tuple, ast.List)) and isinstance(v, (ast.Tuple, ast.List)) and len(t.elts) == len(v.elts) \
                    and all(isinstance(x, ast.Name) for x in list(t.elts) + list(v.elts)):
                pairs = [(a.id, b.id) for a, b in zip(t.elts, v.elts)]
            else:
                continue
            srcs, dsts = [b for _, b in pairs], [a for a, _ in pairs]
            if len(set(srcs)) != len(srcs) or len(set(dsts)) != len(dsts) or set(srcs) & set(dsts) or set(srcs) & params:
                continue
            before = {n.id for b in func.body[:i] for n in ast.walk(b) if isinstance(n, ast.Name)} | \
                     {n.name for b in func.body[:i] for n in ast.walk(b) if isinstance(n, (ast.FunctionDef, ast.ClassDef))}
            after = {n.id for b in func.body[i + 1:] for n in ast.walk(b) if isinstance(n, ast.Name)}
            if set(dsts) & (before | params) or not set(srcs) <= before:
                continue
            if any(isinstance(n, (ast.Global, ast.Nonlocal)) for n in ast.walk(func)):
                continue
            alias = False
            if set(srcs) & after:
                # `A = x` with x still used afterwards: when neither name is ever bound again, both denote the one object from here
                # on (an ALIAS, e.g. `rhs = table__rhs` left by a scalarised helper object): x is spelled A everywhere
                nstores = {}
                for n in ast.walk(func):
                    if isinstance(n, ast.Name) and isinstance(n.ctx, (ast.Store, ast.Del)):
                        nstores[n.id] = nstores.get(n.id, 0) + 1
                if any(nstores.get(x, 0) != 1 for x in srcs + dsts):
                    continue
                alias = True
            ren = dict(zip(srcs, dsts))
            func.body[:i] = [_Rename(ren).visit(b) for b in func.body[:i]]
            if alias:
                func.body[i + 1:] = [_Rename(ren).visit(b) for b in func.body[i + 1:]]
            del func.body[i]
            changed = True
            break
    # ... and an ALIAS `A = x` at the top level, where each of the two names is bound exactly once in the whole function (x earlier, A
    # here), gives the one object a second name: the statements that follow are the same program with A spelled x
    nbind = {}
    for n in ast.walk(func):
        if isinstance(n, ast.Name) and isinstance(n.ctx, (ast.Store, ast.Del)):
            nbind[n.id] = nbind.get(n.id, 0) + 1
        elif isinstance(n, ast.arg):
            nbind[n.arg] = nbind.get(n.arg, 0) + 1
        elif isinstance(n, (ast.FunctionDef, ast.ClassDef, ast.AsyncFunctionDef)) and n is not func:
            nbind[n.name] = nbind.get(n.name, 0) + 2
        elif isinstance(n, (ast.Global, ast.Nonlocal)):
            return func
    i = 0
    while i < len(func.body):
        st = func.body[i]
        if isinstance(st, ast.Assign) and len(st.targets) == 1 and isinstance(st.targets[0], ast.Name) and isinstance(st.value, ast.Name) \
                and st.targets[0].id != st.value.id and nbind.get(st.targets[0].id) == 1 and nbind.get(st.value.id) == 1 and st.value.id not in params \
                and any(isinstance(n, ast.Name) and n.id == st.value.id and isinstance(n.ctx, ast.Store) for b in func.body[:i] for n in ast.walk(b)):
            ren = {st.targets[0].id: st.value.id}
            func.body[i + 1:] = [_Rename(ren).visit(b) for b in func.body[i + 1:]]
            del func.body[i]
            continue
        i += 1
    return func


# --------------------------------------------------------------------------------------------- loops over concatenated iterables

def _chain_parts(e):
    """[A, B, ..] when e is itertools.chain(A, B, ..), possibly wrapped in list() / tuple() / iter(); else None"""
    while isinstance(e, ast.Call) and isinstance(e.func, ast.Name) and e.func.id in ("list", "tuple", "iter") and len(e.args) == 1 and not e.keywords:
        e = e.args[0]
    if isinstance(e, ast.Call) and ast.unparse(e.func) in ("chain", "itertools.chain") and len(e.args) >= 2 and not e.keywords \
            and not any(isinstance(a, ast.Starred) for a in e.args):
        return list(e.args)
    return None


def _repeat_const(e):
    return e.args[0] if isinstance(e, ast.Call) and ast.unparse(e.func) in ("repeat", "itertools.repeat") and len(e.args) == 1 and not e.keywords \
        and isinstance(e.args[0], ast.Constant) else None


def split_chain_loops(func):
    """Loop fission over concatenated iterables:
        for T in chain(A, B): S                 ->   for T in A: S;  for T in B: S         (S has no break; no else clause)
        for c, x in zip(repeat(K), X): S        ->   for x in X: S[c := K]                 (K a constant, c not re-bound in S)
    A local bound once to [list(]chain(..)[)] and read only as the iterable of for-loops (once, unless it is a list / tuple) stands for
    that expression.  `for sign, i in chain(zip(repeat(" - "), R), zip(repeat(" + "), P))` is then the loss loop followed by the gain loop."""
    if not any(isinstance(n, ast.Call) and ast.unparse(n.func) in ("chain", "itertools.chain", "repeat", "itertools.repeat") for n in ast.walk(func)):
        return func
    stores, loads = {}, {}
    for n in ast.walk(func):
        if isinstance(n, ast.Name):
            d = stores if isinstance(n.ctx, (ast.Store, ast.Del)) else loads
            d[n.id] = d.get(n.id, 0) + 1
    bound = {}

    def bindings(stmts):
        """chain-valued locals of this block whose every read is the iterable of a for-loop later in the SAME block, with nothing in
        between re-binding the local or a name its value mentions"""
        for i, n in enumerate(stmts):
            if isinstance(n, ast.Assign) and len(n.targets) == 1 and isinstance(n.targets[0], ast.Name) and stores.get(n.targets[0].id) == 1 and _chain_parts(n.value) is not None:
                name = n.targets[0].id
                uses = [j for j in range(i + 1, len(stmts)) if isinstance(stmts[j], ast.For) and isinstance(stmts[j].iter, ast.Name) and stmts[j].iter.id == name]
                reusable = isinstance(n.value, ast.Call) and isinstance(n.value.func, ast.Name) and n.value.func.id in ("list", "tuple")
                free = _loaded(n.value) | {name}
                ok_parts = all(_pure(a) or _repeat_const(a) is not None or (isinstance(a, ast.Call) and isinstance(a.func, ast.Name) and a.func.id == "zip" and not a.keywords
                               and all(_pure(z) or _repeat_const(z) is not None for z in a.args)) for a in _chain_parts(n.value))
                if uses and len(uses) == loads.get(name, 0) and (reusable or len(uses) == 1) and ok_parts and not (free & _stored(stmts[i + 1:uses[-1] + 1])):
                    bound[name] = n

    def one(loop):
        """the loops `loop` stands for"""
        it = bound[loop.iter.id].value if isinstance(loop.iter, ast.Name) and loop.iter.id in bound else loop.iter
        parts = _chain_parts(it)
        if parts is not None and not loop.orelse and not any(isinstance(x, ast.Break) for st in loop.body for x in ast.walk(st)):
            out = []
            for p_ in parts:
                new = ast.For(target=copy.deepcopy(loop.target), iter=copy.deepcopy(p_), body=[copy.deepcopy(st) for st in loop.body], orelse=[], type_comment=None)
                out.extend(one(ast.copy_location(new, loop)))
            return out
        if isinstance(it, ast.Call) and isinstance(it.func, ast.Name) and it.func.id == "zip" and not it.keywords and isinstance(loop.target, (ast.Tuple, ast.List)) \
                and len(loop.target.elts) == len(it.args) and not any(isinstance(a, ast.Starred) for a in it.args):
            consts = {i: _repeat_const(a) for i, a in enumerate(it.args)}
            fixed = {i: k for i, k in consts.items() if k is not None and isinstance(loop.target.elts[i], ast.Name)}
            names = {loop.target.elts[i].id for i in fixed}
            if fixed and len(fixed) < len(it.args) and not (names & _rebound(loop.body)):
                keep = [i for i in range(len(it.args)) if i not in fixed]
                m = {loop.target.elts[i].id: k for i, k in fixed.items()}
                loop.body = [_Subst(dict(m)).visit(st) for st in loop.body]
                if len(keep) == 1:
                    loop.target, loop.iter = loop.target.elts[keep[0]], it.args[keep[0]]
                else:
                    loop.target = ast.Tuple(elts=[loop.target.elts[i] for i in keep], ctx=ast.Store())
                    loop.iter = ast.Call(func=it.func, args=[it.args[i] for i in keep], keywords=[])
                ast.fix_missing_locations(loop)
        return [loop]

    def block(stmts):
        out = []
        bindings(stmts)
        for st in stmts:
            if isinstance(st, (ast.FunctionDef, ast.ClassDef, ast.AsyncFunctionDef)):
                out.append(st)
                continue
            for fld in ("body", "orelse", "finalbody"):
                b = getattr(st, fld, None)
                if isinstance(b, list) and b and isinstance(b[0], ast.stmt):
                    setattr(st, fld, block(b))
            if isinstance(st, ast.Try):
                for h in st.handlers:
                    h.body = block(h.body)
            if any(st is n for n in bound.values()):
                continue                       # the binding is replaced by its uses
            out.extend(one(st) if isinstance(st, ast.For) else [st])
        return out
    func.body = block(func.body) or [ast.Pass()]
    return ast.fix_missing_locations(func)


# ------------------------------------------------------------------------------------------------ context managers (opt-in pass)

def _is_cm_decorator(d) -> bool:
    return ast.unparse(d).split(".")[-1] == "contextmanager"


def _relocate(stmts, like, end: bool = False):
    """the inlined statements stand where the `with` stands (its last line for what runs on leaving the block)"""
    line = (getattr(like, "end_lineno", None) or like.lineno) if end else like.lineno
    for st in stmts:
        for n in ast.walk(st):
            if hasattr(n, "lineno"):
                n.lineno = n.end_lineno = line
                n.col_offset = n.end_col_offset = 0
        ast.fix_missing_locations(st)
        for n in ast.walk(st):
            if not hasattr(n, "lineno") and isinstance(n, (ast.stmt, ast.expr)):
                n.lineno = n.end_lineno = line
    return stmts


class _SelfFields(ast.NodeTransformer):
    """`<obj>.X` -> the local `<obj>_X`: the fields of an object that never leaves the function are locals"""

    def __init__(self, obj):
        self.obj = obj

    def visit_Attribute(self, n):
        self.generic_visit(n)
        if isinstance(n.value, ast.Name) and n.value.id == self.obj:
            return ast.copy_location(ast.Name(id=f"{self.obj}_{n.attr}", ctx=n.ctx), n)
        return n


def _cm_parts(call, resolve):
    """(entry statements, value bound by `as` | None, exit statements) equal to entering / leaving (without an exception) the
    context manager built by `call`, or None.  Understood: contextlib.nullcontext(); a @contextmanager generator function with one
    top-level `yield`; a class with __enter__ / __exit__ (and an optional __init__) whose methods use the instance only through its
    fields -- the instance lives in fresh locals, one per field."""
    if not isinstance(call, ast.Call):
        return None
    fname = ast.unparse(call.func)
    if fname.split(".")[-1] == "nullcontext" and len(call.args) <= 1 and not call.keywords:
        return [], (call.args[0] if call.args else ast.Constant(value=None)), []
    if not isinstance(call.func, ast.Name):
        return None
    callee = resolve(call.func.id)
    if isinstance(callee, ast.FunctionDef) and any(_is_cm_decorator(d) for d in callee.decorator_list):
        ys = [n for n in ast.walk(callee) if isinstance(n, (ast.Yield, ast.YieldFrom))]
        top = [i for i, st in enumerate(_callee_body(callee)) if isinstance(st, ast.Expr) and isinstance(st.value, ast.Yield)]
        if len(ys) != 1 or len(top) != 1 or any(isinstance(n, (ast.Return, ast.Try)) for n in ast.walk(callee)):
            return None
        plain = copy.deepcopy(callee)
        plain.decorator_list = []
        rb = _renamed_body(plain, call)
        if rb is None:
            return None
        pre, body = rb
        i = top[0]
        return pre + body[:i], body[i].value.value, body[i + 1:]
    if isinstance(callee, ast.ClassDef):
        meths = {m.name: m for m in callee.body if isinstance(m, ast.FunctionDef)}
        if "__enter__" not in meths or "__exit__" not in meths or any(ast.unparse(b) not in ("object",) for b in callee.bases) or callee.decorator_list:
            return None
        k = next(_counter)
        obj = f"_cm{k}"
        recv = ast.Name(id=obj, ctx=ast.Load())

        def part(m, c, drop_return: bool):
            if m.decorator_list or any(isinstance(n, (ast.Yield, ast.YieldFrom)) for n in ast.walk(m)):
                return None
            rb = _renamed_body(m, c, recv)
            if rb is None:
                return None
            pre, body = rb
            ret = None
            if body and isinstance(body[-1], ast.Return):
                ret = body[-1].value
                body = body[:-1]
            if any(isinstance(n, ast.Return) for b in body for n in ast.walk(b)):
                return None
            stmts = [_SelfFields(obj).visit(b) for b in pre + body]
            if ret is not None and not (isinstance(ret, ast.Name) and ret.id == obj):
                ret = _SelfFields(obj).visit(ret)
            # the instance itself must not escape (passed on, stored, compared): only its fields are modelled
            if any(isinstance(n, ast.Name) and n.id == obj for b in stmts for n in ast.walk(b)):
                return None
            return stmts, (None if drop_return else ret)
        entry = []
        if "__init__" in meths:
            r = part(meths["__init__"], call, True)
            if r is None:
                return None
            entry += r[0]
        elif call.args or call.keywords:
            return None
        r = part(meths["__enter__"], ast.Call(func=ast.Name(id="_", ctx=ast.Load()), args=[], keywords=[]), False)
        if r is None:
            return None
        entry += r[0]
        bound = r[1]
        nones = [ast.Constant(value=None) for _ in meths["__exit__"].args.args[1:]]
        x = part(meths["__exit__"], ast.Call(func=ast.Name(id="_", ctx=ast.Load()), args=nones, keywords=[]), True)
        return entry, bound, (x[0] if x is not None else [])
    return None


def inline_context_managers(func, resolve, max_depth: int = 3):
    """`with CM(..) [as v]: BODY`  ->  <what entering CM does>; [v = <what it hands over>]; BODY; <what leaving it without an exception
    does>  for the context managers _cm_parts understands (`resolve(name) -> FunctionDef | ClassDef | None` finds them in the module);
    `with A, B:` is `with A: with B:`;  `with (A if c else B): BODY` is `if c: with A: BODY else: with B: BODY`;  a local bound once to
    such an expression (`session = A if c else B; with session:`) is read through.  Any other `with` (open(..), locks) stays.  The
    inlined statements carry the line of the `with` (those of the exit its last line), so that "before / after the block" still reads
    off the line numbers."""
    once = {}
    for n in ast.walk(func):
        if isinstance(n, ast.Assign) and len(n.targets) == 1 and isinstance(n.targets[0], ast.Name):
            once.setdefault(n.targets[0].id, []).append(n.value)
    stores = {}
    for n in ast.walk(func):
        if isinstance(n, ast.Name) and isinstance(n.ctx, (ast.Store, ast.Del)):
            stores[n.id] = stores.get(n.id, 0) + 1

    def expand(stmts, depth):
        out = []
        for st in stmts:
            for fld in ("body", "orelse", "finalbody"):
                b = getattr(st, fld, None)
                if isinstance(b, list) and b and isinstance(b[0], ast.stmt):
                    setattr(st, fld, expand(b, depth))
            if isinstance(st, ast.Try):
                for h in st.handlers:
                    h.body = expand(h.body, depth)
            if not isinstance(st, ast.With) or depth > max_depth:
                out.append(st)
                continue
            if len(st.items) > 1:
                inner = ast.copy_location(ast.With(items=st.items[1:], body=st.body), st)
                st = ast.copy_location(ast.With(items=st.items[:1], body=[inner]), st)
                out.extend(expand([st], depth))
                continue
            item = st.items[0]
            e = item.context_expr
            if isinstance(e, ast.Name) and stores.get(e.id) == 1 and len(once.get(e.id, [])) == 1:
                e = once[e.id][0]
            if isinstance(e, ast.IfExp):
                a = ast.copy_location(ast.With(items=[ast.withitem(context_expr=e.body, optional_vars=copy.deepcopy(item.optional_vars))], body=st.body), st)
                b = ast.copy_location(ast.With(items=[ast.withitem(context_expr=e.orelse, optional_vars=copy.deepcopy(item.optional_vars))], body=copy.deepcopy(st.body)), st)
                if _cm_parts(e.body, resolve) is not None and _cm_parts(e.orelse, resolve) is not None:
                    out.append(ast.copy_location(ast.If(test=copy.deepcopy(e.test), body=expand([a], depth + 1), orelse=expand([b], depth + 1)), st))
                    continue
            parts = _cm_parts(e, resolve)
            if parts is None:
                out.append(st)
                continue
            entry, bound, leave = parts
            if item.optional_vars is not None:
                if bound is None:
                    out.append(st)
                    continue
                entry = entry + [ast.Assign(targets=[copy.deepcopy(item.optional_vars)], value=bound)]
            out.extend(_relocate(entry, st) + st.body + _relocate(leave, st, end=True))
        return out
    func.body = expand(func.body, 0)
    ast.fix_missing_locations(func)
    return func


# ------------------------------------------------------------------------------------------------ local helper objects (opt-in pass)

def _dataclass_init(cls: ast.ClassDef):
    """the constructor @dataclass generates: one parameter per annotated field (defaults / default factories as the parameter's
    default expression -- evaluated per call, as the generated code does), each stored into the field of the same name"""
    args, defaults, body = [ast.arg(arg="self")], [], []
    for st in cls.body:
        if isinstance(st, ast.AnnAssign) and isinstance(st.target, ast.Name) and "ClassVar" not in ast.unparse(st.annotation):
            d = st.value
            if isinstance(d, ast.Call) and ast.unparse(d.func).split(".")[-1] == "field":
                kw = {k.arg: k.value for k in d.keywords}
                if "default_factory" in kw:
                    d = ast.Call(func=copy.deepcopy(kw["default_factory"]), args=[], keywords=[])
                elif "default" in kw:
                    d = copy.deepcopy(kw["default"])
                else:
                    d = None
                if kw.get("init") is not None:
                    return None
            if d is None and defaults:
                return None
            args.append(ast.arg(arg=st.target.id))
            if d is not None:
                defaults.append(copy.deepcopy(d))
            body.append(ast.Assign(targets=[ast.Attribute(value=ast.Name(id="self", ctx=ast.Load()), attr=st.target.id, ctx=ast.Store())], value=ast.Name(id=st.target.id, ctx=ast.Load())))
    fn = ast.FunctionDef(name="__init__", args=ast.arguments(posonlyargs=[], args=args, kwonlyargs=[], kw_defaults=[], defaults=defaults), body=body or [ast.Pass()], decorator_list=[], lineno=cls.lineno, col_offset=0)
    return ast.fix_missing_locations(fn)


def _procedure_without_early_returns(m: ast.FunctionDef):
    """a method whose `return`s carry no value, with its guard clauses turned into if / else arms (normalize._tailify) and the -- now
    trailing -- returns dropped: the same statements in straight-line form;  the method itself when it has no early return"""
    rets = [n for n in ast.walk(m) if isinstance(n, ast.Return)]
    if not rets or any(r.value is not None and not (isinstance(r.value, ast.Constant) and r.value.value is None) for r in rets):
        return m
    if all(r is m.body[-1] for r in rets):
        return m
    t = _tailify(copy.deepcopy(_callee_body(m)))
    if t is None:
        return m

    class Drop(ast.NodeTransformer):
        def visit_Return(self, n):
            return ast.copy_location(ast.Pass(), n)

        def visit_FunctionDef(self, n):
            return n
    new = copy.deepcopy(m)
    new.body = [Drop().visit(b) for b in t]
    return ast.fix_missing_locations(new)


def inline_local_objects(func, resolve_class, max_depth: int = 4):
    """A helper OBJECT that lives and dies inside `func` -- `x = C(..)` with C a small class of the module (plain or @dataclass), `x`
    bound once and used only as `x.method(..)` / `x.field` / `x.property` -- is the bundle of its fields: the constructor and every
    method called on it are inlined (normalize.inline_stmt_calls with `x` as the receiver) and each field `x.f` becomes the local
    `x__f`.  What the methods do to the fields then shows up in `func` exactly as if the bookkeeping had been written with locals.
    Returns a rewritten copy, or `func` itself when no object qualifies / something could not be inlined (an object that escapes,
    a method with a valued early return, inheritance, __post_init__ ..)."""
    stores = {}
    for n in ast.walk(func):
        if isinstance(n, ast.Name) and isinstance(n.ctx, (ast.Store, ast.Del)):
            stores[n.id] = stores.get(n.id, 0) + 1
    params = {a.arg for a in func.args.args + func.args.kwonlyargs}
    cands = []
    for n in ast.walk(func):
        if isinstance(n, ast.Assign) and len(n.targets) == 1 and isinstance(n.targets[0], ast.Name) and isinstance(n.value, ast.Call) and isinstance(n.value.func, ast.Name):
            x = n.targets[0].id
            cls = resolve_class(n.value.func.id)
            if isinstance(cls, ast.ClassDef) and stores.get(x) == 1 and x not in params:
                cands.append((x, cls))
    out = func
    for x, cls in cands:
        decs = [ast.unparse(d).split("(")[0].split(".")[-1] for d in cls.decorator_list]
        if any(ast.unparse(b) != "object" for b in cls.bases) or any(d != "dataclass" for d in decs):
            continue
        meths = {m.name: m for m in cls.body if isinstance(m, ast.FunctionDef)}
        if "__post_init__" in meths or any(isinstance(m, ast.AsyncFunctionDef) for m in cls.body):
            continue
        if "__init__" not in meths:
            init = _dataclass_init(cls) if decs else None
            if init is None:
                continue
            meths["__init__"] = init
        props = {k for k, m in meths.items() if any(ast.unparse(d) == "property" for d in m.decorator_list)}
        if any(m.decorator_list and k not in props for k, m in meths.items()):
            continue
        fields = {t.attr for m in meths.values() for n in ast.walk(m) for t in (n.targets if isinstance(n, ast.Assign) else [n.target] if isinstance(n, (ast.AugAssign, ast.AnnAssign)) else [])
                  for t in ([t] if not isinstance(t, (ast.Tuple, ast.List)) else t.elts)
                  if isinstance(t, ast.Attribute) and isinstance(t.value, ast.Name) and t.value.id == m.args.args[0].arg}
        class_level = {t.id for st in cls.body if isinstance(st, ast.Assign) for t in st.targets if isinstance(t, ast.Name)}
        # class-level LITERAL constants that no method assigns through the instance (`absent = ("N", "NONE")`, read as `self.absent`)
        # are written in place where they are read; any other class-level binding keeps the object a call

        def _lit(v):
            return isinstance(v, ast.Constant) or (isinstance(v, (ast.Tuple, ast.List)) and all(_lit(e) for e in v.elts))
        class_consts = {st.targets[0].id: st.value for st in cls.body if isinstance(st, ast.Assign) and len(st.targets) == 1 and isinstance(st.targets[0], ast.Name) and _lit(st.value)}
        if fields & set(meths) or class_level - set(class_consts) or set(class_consts) & (fields | set(meths)) \
                or any(isinstance(st, ast.AnnAssign) and st.value is not None for st in cls.body if not decs):
            continue
        work = copy.deepcopy(out)
        # `float(x)` / `str(x)` / `int(x)` / `bool(x)` / `len(x)` of an object whose class defines the conversion is that method's call
        conv = {"float": "__float__", "str": "__str__", "int": "__int__", "bool": "__bool__", "len": "__len__"}

        class Conv(ast.NodeTransformer):
            def visit_Call(self, n):
                self.generic_visit(n)
                if isinstance(n.func, ast.Name) and conv.get(n.func.id) in meths and len(n.args) == 1 and not n.keywords and isinstance(n.args[0], ast.Name) and n.args[0].id == x:
                    return ast.copy_location(ast.Call(func=ast.Attribute(value=n.args[0], attr=conv[n.func.id], ctx=ast.Load()), args=[], keywords=[]), n)
                return n
        if any(m_ in meths for m_ in conv.values()):
            work = Conv().visit(work)
            ast.fix_missing_locations(work)
        # every use of x is `x.<something>`
        parents = {}
        for n in ast.walk(work):
            for ch in ast.iter_child_nodes(n):
                parents[id(ch)] = n
        uses = [n for n in ast.walk(work) if isinstance(n, ast.Name) and n.id == x and isinstance(n.ctx, ast.Load)]
        if not uses or any(not (isinstance(parents.get(id(u)), ast.Attribute) and parents[id(u)].value is u) for u in uses):
            continue
        plain = {k: _procedure_without_early_returns(m) for k, m in meths.items() if k not in props}
        for k, m in list(plain.items()):
            m2 = copy.deepcopy(m)
            m2.decorator_list = []
            plain[k] = m2
        pm = {}
        for k in props:
            m2 = copy.deepcopy(meths[k])
            m2.decorator_list = []
            pm[k] = m2
        recv = ast.Name(id=x, ctx=ast.Load())

        # 1. the constructor call -> a statement call of __init__ on x (inlined below like any other method)
        class Ctor(ast.NodeTransformer):
            def visit_Assign(self, n):
                if len(n.targets) == 1 and isinstance(n.targets[0], ast.Name) and n.targets[0].id == x:
                    c = n.value
                    call = ast.Call(func=ast.Attribute(value=ast.Name(id=x, ctx=ast.Load()), attr="__init__", ctx=ast.Load()), args=c.args, keywords=c.keywords)
                    return ast.copy_location(ast.Expr(value=call), n)
                return n
        work = Ctor().visit(work)
        ast.fix_missing_locations(work)

        # 2. property reads -> calls (inlined as expressions below)
        class Props(ast.NodeTransformer):
            def visit_Attribute(self, n):
                self.generic_visit(n)
                if isinstance(n.value, ast.Name) and n.value.id == x and n.attr in pm and isinstance(n.ctx, ast.Load):
                    return ast.copy_location(ast.Call(func=n, args=[], keywords=[]), n)
                return n

        def resolve(call):
            f = call.func
            if isinstance(f, ast.Attribute) and isinstance(f.value, ast.Name) and f.value.id == x:
                m = plain.get(f.attr) or pm.get(f.attr)
                if m is not None:
                    return m, ast.Name(id=x, ctx=ast.Load())
            return None
        for _ in range(max_depth):
            before = ast.dump(work)
            work = Props().visit(work)
            ast.fix_missing_locations(work)
            # expression-bodied methods / properties anywhere inside an expression
            class Exprs(ast.NodeTransformer):
                def visit_Call(self, n):
                    self.generic_visit(n)
                    r = resolve(n)
                    if r is not None and _simple_callee(r[0]) == "expr":
                        e = inline_expr(r[0], n, r[1])
                        if e is not None:
                            return ast.copy_location(e, n)
                    return n
            work = Exprs().visit(work)
            ast.fix_missing_locations(work)
            inline_stmt_calls(work, resolve, max_depth)
            ast.fix_missing_locations(work)
            if ast.dump(work) == before:
                break
        # 3. the fields become locals; anything else still said about x means the object was not fully dissolved
        if class_consts:
            class Consts(ast.NodeTransformer):
                def visit_Attribute(self, n):
                    self.generic_visit(n)
                    if isinstance(n.value, ast.Name) and n.value.id == x and n.attr in class_consts and isinstance(n.ctx, ast.Load):
                        return ast.copy_location(copy.deepcopy(class_consts[n.attr]), n)
                    return n
            work = Consts().visit(work)
            ast.fix_missing_locations(work)
        left = [n for n in ast.walk(work) if isinstance(n, ast.Attribute) and isinstance(n.value, ast.Name) and n.value.id == x and n.attr not in fields]
        if left:
            continue
        k = next(_counter)

        class Fields(ast.NodeTransformer):
            def visit_Attribute(self, n):
                self.generic_visit(n)
                if isinstance(n.value, ast.Name) and n.value.id == x:
                    return ast.copy_location(ast.Name(id=f"{x}__{n.attr}", ctx=n.ctx), n)
                return n
        work = Fields().visit(work)
        if any(isinstance(n, ast.Name) and n.id == x for n in ast.walk(work)):
            continue
        ast.fix_missing_locations(work)
        out = work
    return out


def normalize_function(func, tables: dict | None = None, ctables: dict | None = None, cname: str | None = None):
    """the local normalisations (no knowledge of other functions needed); `tables`: module-level literal tables (module_tables);
    `ctables`: class-level literal tables (class_tables) of the class `cname` the function is a method of"""
    try:
        split_chain_loops(func)
        inline_method_aliases(func)
        specialise_dispatch(func)
        inline_local_defs(func)
        index_loops_to_enumerate(func)
        before = len(list(ast.walk(func)))
        unroll_static_loops(func, tables, ctables, cname)
        specialise_selected_name(func)      # after unrolling: `next(name for key, name in TABLE if ..)` has become the chain of tests
        const_getattr(func)          # after unrolling: the name may come from a row of the unrolled table
        if len(list(ast.walk(func))) != before:
            # unrolling a table of closures / helper references turns them into direct calls: a second round inlines those
            _drop_dead_tables(func)
            func.body = [_CallLambda().visit(st) for st in func.body]
            inline_local_defs(func)
            ast.fix_missing_locations(func)
    except RecursionError:
        pass
    return func


# ----------------------------------------------------------------------------------------------- static folding (opt-in pass)
#
# fold_static(func) is NOT part of normalize_function: a rule asks for it (pymodel.Package.folded) when it decides a function by
# the VALUES its statements compute rather than by their arrangement.  It is partial evaluation of the literal part of a function:
#   * sequences: zip / enumerate / reversed / list / tuple / range / itertools.accumulate / slices / `+` / comprehensions and
#     generator expressions over literal tuples and lists (and locals bound to them) are the literal they evaluate to, so that a
#     loop over them is unrolled like a loop over a literal written in place (nested tuple targets included);
#   * scalars: integer arithmetic on constants, <literal>[<constant>], <dict literal>[<constant>] / .get(<constant>), len / sum of
#     a literal, `<constant> == <constant>`, `<constant> in <literal of constants>`, and the `if` / conditional expressions whose
#     test became a constant;
#   * table dispatch: `if key in <literal dict / tuple of constants>: ... TABLE[key] ...` is the if/elif chain over the keys;
#   * functools.reduce(f, <literal>, init) is f(f(init, e1), e2)..; a lambda called on the spot is its body;
#   * getattr(x, "name") / setattr(x, "name", v) with a literal identifier are `x.name` / `x.name = v`.
# Nothing is executed: only Python's own semantics of these pure builtins on literals is used.

_SEQ_MAX = 64


def _num(e) -> bool:
    return isinstance(e, ast.Constant) and isinstance(e.value, (int, float)) and not isinstance(e.value, bool)


def _int(e) -> bool:
    return isinstance(e, ast.Constant) and isinstance(e.value, int) and not isinstance(e.value, bool)


def _plain_seq(e):
    return isinstance(e, (ast.Tuple, ast.List)) and len(e.elts) <= _SEQ_MAX and not any(isinstance(x, ast.Starred) for x in e.elts)


def _const_keys(e):
    """the constants a literal container holds (dict: its keys), or None when an element is not a constant"""
    if isinstance(e, ast.Dict):
        ks = e.keys
    elif isinstance(e, (ast.Tuple, ast.List, ast.Set)):
        ks = e.elts
    else:
        return None
    if any(not isinstance(k, ast.Constant) for k in ks):
        return None
    return [k.value for k in ks]


def _same_const(a, b) -> bool:
    return type(a) is type(b) and a == b


def _mk_tuple(elts, like=None):
    t = ast.Tuple(elts=list(elts), ctx=ast.Load())
    if like is not None and hasattr(like, "lineno"):
        ast.copy_location(t, like)
    return ast.fix_missing_locations(t)


def _slice_bounds(s):
    """(lo, hi, step) of a slice with constant / absent bounds, or None"""
    if not isinstance(s, ast.Slice):
        return None
    out = []
    for b in (s.lower, s.upper, s.step):
        if b is None or (isinstance(b, ast.Constant) and b.value is None):
            out.append(None)
        elif _int(b):
            out.append(b.value)
        elif isinstance(b, ast.UnaryOp) and isinstance(b.op, ast.USub) and _int(b.operand):
            out.append(-b.operand.value)
        else:
            return None
    return tuple(out)


def _static_seq(e, lits, depth: int = 0):
    """the literal tuple (of element EXPRESSIONS) that the sequence expression `e` evaluates to, or None.  `lits`: locals known to be
    bound to such literals.  One-shot iterators (zip, accumulate, generators) bound to a local are treated as the sequence they
    yield: code that walks such a local twice is not what this pass is for (the second walk would be empty)."""
    if depth > 8:
        return None
    rec = lambda x: _static_seq(x, lits, depth + 1)
    if _plain_seq(e):
        return e
    if isinstance(e, ast.Name):
        return lits.get(e.id)
    if isinstance(e, ast.Dict) and _const_keys(e) is not None:
        return _mk_tuple([copy.deepcopy(k) for k in e.keys], e)
    if isinstance(e, ast.Subscript):
        seq, b = rec(e.value), _slice_bounds(e.slice)
        if seq is not None and b is not None and b[2] in (None, 1, -1):
            return _mk_tuple(seq.elts[slice(*b)], e)
        return None
    if isinstance(e, ast.BinOp) and isinstance(e.op, ast.Add):
        a, b = rec(e.left), rec(e.right)
        if a is not None and b is not None and type(a) is type(b) and len(a.elts) + len(b.elts) <= _SEQ_MAX:
            return _mk_tuple(list(a.elts) + list(b.elts), e)
        return None
    if isinstance(e, (ast.ListComp, ast.GeneratorExp)) and len(e.generators) == 1 and not e.generators[0].is_async:
        g = e.generators[0]
        seq = rec(g.iter)
        if seq is None:
            return None
        out = []
        for el in seq.elts:
            m = _destructure(g.target, el)
            if m is None or not all(_pure(v, lambdas=True) for v in m.values()):
                return None
            keep = True
            for c in g.ifs:
                t = _fold_expr(_Subst(dict(m)).visit(copy.deepcopy(c)))
                if not isinstance(t, ast.Constant):
                    return None
                if not t.value:
                    keep = False
                    break
            if keep:
                out.append(_fold_expr(_Subst(dict(m)).visit(copy.deepcopy(e.elt))))
        return _mk_tuple(out, e)
    if not isinstance(e, ast.Call) or any(isinstance(a, ast.Starred) for a in e.args) or any(k.arg is None for k in e.keywords):
        return None
    f = e.func
    kws = {k.arg: k.value for k in e.keywords}
    if isinstance(f, ast.Attribute) and f.attr in ("items", "keys", "values") and isinstance(f.value, ast.Dict) and not e.args and not kws \
            and _const_keys(f.value) is not None and len(f.value.keys) <= _SEQ_MAX:
        d = f.value
        if f.attr == "keys":
            return _mk_tuple([copy.deepcopy(k) for k in d.keys], e)
        if f.attr == "values":
            return _mk_tuple([copy.deepcopy(v) for v in d.values], e)
        return _mk_tuple([_mk_tuple([copy.deepcopy(k), copy.deepcopy(v)], e) for k, v in zip(d.keys, d.values)], e)
    name = ast.unparse(f)
    if name.startswith("itertools."):
        name = name[len("itertools."):]
    if name in lits:
        return None                     # the builtin's name is a local here
    if name in ("list", "tuple", "iter") and len(e.args) == 1 and not kws:
        return rec(e.args[0])
    if name == "reversed" and len(e.args) == 1 and not kws:
        seq = rec(e.args[0])
        return _mk_tuple(reversed(seq.elts), e) if seq is not None else None
    if name == "zip" and e.args and (not kws or (set(kws) == {"strict"} and isinstance(kws["strict"], ast.Constant))):
        seqs = [rec(a) for a in e.args]
        if any(s is None for s in seqs):
            return None
        n = min(len(s.elts) for s in seqs)
        return _mk_tuple([_mk_tuple([copy.deepcopy(s.elts[i]) for s in seqs], e) for i in range(n)], e)
    if name == "enumerate" and 1 <= len(e.args) <= 2 and set(kws) <= {"start"}:
        seq = rec(e.args[0])
        start = e.args[1] if len(e.args) == 2 else kws.get("start", ast.Constant(value=0))
        if seq is None or not _int(start):
            return None
        return _mk_tuple([_mk_tuple([ast.Constant(value=start.value + i), copy.deepcopy(x)], e) for i, x in enumerate(seq.elts)], e)
    if name == "accumulate" and len(e.args) == 1 and set(kws) <= {"initial"}:
        seq = rec(e.args[0])
        init = kws.get("initial")
        if seq is None or not all(_num(x) for x in seq.elts) or (init is not None and not (_num(init) or (isinstance(init, ast.Constant) and init.value is None))):
            return None
        vals = [x.value for x in seq.elts]
        if init is not None and init.value is not None:
            vals = [init.value] + vals
        run, tot = [], None
        for v in vals:
            tot = v if tot is None else tot + v
            run.append(tot)
        return _mk_tuple([ast.Constant(value=v) for v in run], e)
    if name == "range" and 1 <= len(e.args) <= 3 and not kws and all(_int(a) for a in e.args):
        r = range(*[a.value for a in e.args])
        return _mk_tuple([ast.Constant(value=v) for v in r], e) if len(r) <= _SEQ_MAX else None
    return None


_STR_PURE = ("partition", "rpartition", "split", "rsplit", "lower", "upper", "strip", "lstrip", "rstrip", "removeprefix", "removesuffix", "replace",
             "title", "capitalize", "startswith", "endswith")


def _const_node(v):
    """literal node of a str / bool / int / None or a (nested) tuple / list of them, else None"""
    if v is None or isinstance(v, (str, bool, int)):
        return ast.Constant(value=v)
    if isinstance(v, (tuple, list)) and len(v) <= 64:
        elts = [_const_node(x) for x in v]
        if all(e is not None for e in elts):
            return (ast.Tuple if isinstance(v, tuple) else ast.List)(elts=elts, ctx=ast.Load())
    return None


class _Fold(ast.NodeTransformer):
    """scalar folding of the literal part of an expression (see fold_static)"""

    def visit_BinOp(self, n):
        self.generic_visit(n)
        l, r = n.left, n.right
        if _int(l) and _int(r) and isinstance(n.op, (ast.Add, ast.Sub, ast.Mult)):
            v = l.value + r.value if isinstance(n.op, ast.Add) else l.value - r.value if isinstance(n.op, ast.Sub) else l.value * r.value
            return ast.copy_location(ast.Constant(value=v), n)
        if _int(l) and _int(r) and isinstance(n.op, ast.FloorDiv) and r.value > 0 and l.value >= 0:
            return ast.copy_location(ast.Constant(value=l.value // r.value), n)
        return n

    def visit_UnaryOp(self, n):
        self.generic_visit(n)
        if isinstance(n.op, ast.Not) and isinstance(n.operand, ast.Constant):
            return ast.copy_location(ast.Constant(value=not n.operand.value), n)
        return n

    def visit_Attribute(self, n):
        # `<namedtuple row display>.field` is the element at the field's position (namedtuple_rows keeps the field names on the display):
        # `[col.width for col in TABLE]` over a table of rows, once `col` is a row
        self.generic_visit(n)
        fs = getattr(n.value, "_nt_fields", None)
        if fs and isinstance(n.value, ast.Tuple) and isinstance(n.ctx, ast.Load) and n.attr in fs and len(fs) == len(n.value.elts):
            return ast.copy_location(n.value.elts[fs.index(n.attr)], n)
        return n

    def visit_Subscript(self, n):
        self.generic_visit(n)
        if not isinstance(n.ctx, ast.Load):
            return n
        v, s = n.value, n.slice
        # x[slice(a, b)] is x[a:b]
        if isinstance(s, ast.Call) and isinstance(s.func, ast.Name) and s.func.id == "slice" and 1 <= len(s.args) <= 3 and not s.keywords \
                and all(isinstance(a, ast.Constant) and (a.value is None or _int(a)) for a in s.args):
            a_ = [None if a.value is None else a for a in s.args]
            lo, hi, st = (None, a_[0], None) if len(a_) == 1 else (a_[0], a_[1], a_[2] if len(a_) == 3 else None)
            n.slice = s = ast.copy_location(ast.Slice(lower=lo, upper=hi, step=st), s)
        if isinstance(v, ast.Dict) and isinstance(s, ast.Constant) and _const_keys(v) is not None and all(_pure(x, lambdas=True) for x in v.values):
            hit = [val for k, val in zip(v.keys, v.values) if _same_const(k.value, s.value)]
            if hit:
                return ast.copy_location(copy.deepcopy(hit[-1]), n)
        if _plain_seq(v) and all(_pure(x, lambdas=True) for x in v.elts):
            if _int(s) and -len(v.elts) <= s.value < len(v.elts):
                return ast.copy_location(copy.deepcopy(v.elts[s.value]), n)
            b = _slice_bounds(s)
            if b is not None and b[2] in (None, 1):
                new = type(v)(elts=[copy.deepcopy(x) for x in v.elts[slice(*b)]], ctx=ast.Load())
                return ast.copy_location(new, n)
        return n

    def visit_Compare(self, n):
        self.generic_visit(n)
        if len(n.ops) != 1:
            return n
        l, r, op = n.left, n.comparators[0], n.ops[0]
        if isinstance(l, ast.Constant) and isinstance(r, ast.Constant) and isinstance(op, (ast.Eq, ast.NotEq)) \
                and (type(l.value) is type(r.value) or isinstance(l.value, str) != isinstance(r.value, str)):
            eq = _same_const(l.value, r.value)
            return ast.copy_location(ast.Constant(value=eq if isinstance(op, ast.Eq) else not eq), n)
        if isinstance(l, ast.Constant) and isinstance(r, ast.Constant) and isinstance(op, (ast.Is, ast.IsNot)) and (l.value is None or r.value is None):
            same = l.value is None and r.value is None          # (identity with None is decided by the values)
            return ast.copy_location(ast.Constant(value=same if isinstance(op, ast.Is) else not same), n)
        if isinstance(l, ast.Constant) and isinstance(op, (ast.In, ast.NotIn)):
            ks = _const_keys(r)
            if ks is not None and (isinstance(l.value, str) or l.value is None or all(type(k) is type(l.value) for k in ks)):
                inside = any(_same_const(k, l.value) for k in ks)
                return ast.copy_location(ast.Constant(value=inside if isinstance(op, ast.In) else not inside), n)
        return n

    def visit_BoolOp(self, n):
        self.generic_visit(n)
        is_and = isinstance(n.op, ast.And)
        vals = []
        for i, v in enumerate(n.values):
            if isinstance(v, ast.Constant) and bool(v.value) == is_and and i < len(n.values) - 1:
                continue            # `True and x` is x;  `False or x` is x
            vals.append(v)
            if isinstance(v, ast.Constant) and bool(v.value) != is_and:
                break               # `x and False and y` stops at False
        # a leading decisive constant decides the whole expression
        if isinstance(vals[0], ast.Constant) and bool(vals[0].value) != is_and:
            return ast.copy_location(vals[0], n)
        if len(vals) == 1:
            return vals[0]
        n.values = vals
        return n

    def visit_IfExp(self, n):
        self.generic_visit(n)
        if isinstance(n.test, ast.Constant):
            return n.body if n.test.value else n.orelse
        return n

    def visit_Call(self, n):
        self.generic_visit(n)
        f = n.func
        if any(isinstance(a, ast.Starred) for a in n.args) or any(k.arg is None for k in n.keywords):
            return n
        name = ast.unparse(f) if isinstance(f, (ast.Name, ast.Attribute)) else ""
        if name == "len" and len(n.args) == 1 and not n.keywords and (_plain_seq(n.args[0]) or (isinstance(n.args[0], ast.Dict) and None not in n.args[0].keys)):
            a = n.args[0]
            return ast.copy_location(ast.Constant(value=len(a.keys if isinstance(a, ast.Dict) else a.elts)), n)
        if name == "len" and len(n.args) == 1 and not n.keywords and isinstance(n.args[0], ast.Constant) and isinstance(n.args[0].value, (str, bytes)):
            return ast.copy_location(ast.Constant(value=len(n.args[0].value)), n)
        if name == "sum" and len(n.args) == 1 and not n.keywords and _plain_seq(n.args[0]) and all(_int(x) for x in n.args[0].elts):
            return ast.copy_location(ast.Constant(value=sum(x.value for x in n.args[0].elts)), n)
        if name in ("reduce", "functools.reduce") and len(n.args) in (2, 3) and not n.keywords and _plain_seq(n.args[1]) \
                and all(_pure(x) for x in n.args[1].elts) and _pure(n.args[0], lambdas=True):
            elts = list(n.args[1].elts)
            acc = n.args[2] if len(n.args) == 3 else (elts.pop(0) if elts else None)
            if acc is not None:
                for el in elts:
                    acc = self.visit_Call(ast.copy_location(ast.Call(func=copy.deepcopy(n.args[0]), args=[acc, copy.deepcopy(el)], keywords=[]), n))
                return ast.fix_missing_locations(acc)
        if isinstance(f, ast.Lambda) and not n.keywords:
            a = f.args
            params = [p.arg for p in a.args]
            if not (a.posonlyargs or a.kwonlyargs or a.vararg or a.kwarg or a.defaults) and len(params) == len(n.args) \
                    and not any(isinstance(x, (ast.Lambda, ast.ListComp, ast.SetComp, ast.DictComp, ast.GeneratorExp)) for x in ast.walk(f.body)):
                uses = {p: sum(1 for x in ast.walk(f.body) if isinstance(x, ast.Name) and x.id == p) for p in params}
                if all(_pure(arg, lambdas=True) or uses[p] == 1 for p, arg in zip(params, n.args)):
                    return ast.copy_location(_Subst(dict(zip(params, n.args))).visit(copy.deepcopy(f.body)), n)
        if name == "getattr" and len(n.args) == 2 and not n.keywords and isinstance(n.args[1], ast.Constant) and isinstance(n.args[1].value, str) \
                and n.args[1].value.isidentifier():
            return ast.copy_location(ast.Attribute(value=n.args[0], attr=n.args[1].value, ctx=ast.Load()), n)
        # a pure str method of a literal string with literal arguments is the literal it yields: "UMIST_AD".partition("_") -> ("UMIST", "_", "AD")
        if isinstance(f, ast.Attribute) and isinstance(f.value, ast.Constant) and isinstance(f.value.value, str) and f.attr in _STR_PURE and not n.keywords \
                and all(isinstance(a, ast.Constant) and isinstance(a.value, (str, int, type(None))) and not isinstance(a.value, bool) for a in n.args) \
                and len(f.value.value) <= 256:
            try:
                r = getattr(f.value.value, f.attr)(*[a.value for a in n.args])
            except Exception:
                return n
            lit = _const_node(r)
            if lit is not None:
                return ast.copy_location(lit, n)
        if isinstance(f, ast.Attribute) and f.attr == "get" and isinstance(f.value, ast.Dict) and 1 <= len(n.args) <= 2 and not n.keywords \
                and isinstance(n.args[0], ast.Constant) and _const_keys(f.value) is not None and all(_pure(x, lambdas=True) for x in f.value.values):
            hit = [val for k, val in zip(f.value.keys, f.value.values) if _same_const(k.value, n.args[0].value)]
            if hit:
                return ast.copy_location(copy.deepcopy(hit[-1]), n)
            if len(n.args) == 1 or _pure(n.args[1], lambdas=True):
                return ast.copy_location(n.args[1] if len(n.args) == 2 else ast.Constant(value=None), n)
        return n

    def visit_Expr(self, n):
        self.generic_visit(n)
        c = n.value
        if isinstance(c, ast.Call) and isinstance(c.func, ast.Name) and c.func.id == "setattr" and len(c.args) == 3 and not c.keywords \
                and isinstance(c.args[1], ast.Constant) and isinstance(c.args[1].value, str) and c.args[1].value.isidentifier():
            new = ast.Assign(targets=[ast.Attribute(value=c.args[0], attr=c.args[1].value, ctx=ast.Store())], value=c.args[2])
            return ast.fix_missing_locations(ast.copy_location(new, n))
        return n


def _fold_expr(e):
    return ast.fix_missing_locations(_Fold().visit(e))


def _prune_const_ifs(stmts):
    """`if <constant>:` is the arm it selects"""
    out = []
    for st in stmts:
        if not isinstance(st, (ast.FunctionDef, ast.ClassDef, ast.AsyncFunctionDef)):
            for fld in ("body", "orelse", "finalbody"):
                b = getattr(st, fld, None)
                if isinstance(b, list) and b and isinstance(b[0], ast.stmt):
                    nb = _prune_const_ifs(b)
                    setattr(st, fld, nb if nb or fld != "body" else [ast.copy_location(ast.Pass(), st)])
            if isinstance(st, ast.Try):
                for h in st.handlers:
                    h.body = _prune_const_ifs(h.body) or [ast.copy_location(ast.Pass(), st)]
        if isinstance(st, ast.If) and isinstance(st.test, ast.Constant):
            out.extend(st.body if st.test.value else st.orelse)
            continue
        out.append(st)
    return out


class _TableDispatch(ast.NodeTransformer):
    """`if key in <literal dict / tuple / list / set of constants> [and c]: B` whose body (or c) looks something up BY key --
    `<dict literal>[key]`, getattr / setattr with a name computed from key -- is the chain `if key == k1 [and c]: B[key := k1]
    elif key == k2 ..: B[key := k2] .. else: <the original else>`: inside each arm key IS that constant.  key is a plain name that
    the body does not re-bind."""

    @staticmethod
    def _keyed(nodes, name) -> bool:
        for st in nodes:
            for x in ast.walk(st):
                if isinstance(x, ast.Subscript) and isinstance(x.value, ast.Dict) and isinstance(x.slice, ast.Name) and x.slice.id == name:
                    return True
                if isinstance(x, ast.Call) and isinstance(x.func, ast.Name) and x.func.id in ("getattr", "setattr") and len(x.args) >= 2 \
                        and any(isinstance(y, ast.Name) and y.id == name for y in ast.walk(x.args[1])):
                    return True
        return False

    def visit_If(self, n):
        self.generic_visit(n)
        first, rest = n.test, []
        if isinstance(first, ast.BoolOp) and isinstance(first.op, ast.And):
            first, rest = first.values[0], first.values[1:]
        if not (isinstance(first, ast.Compare) and len(first.ops) == 1 and isinstance(first.ops[0], ast.In) and isinstance(first.left, ast.Name)):
            return n
        x = first.left.id
        keys = _const_keys(first.comparators[0])
        if not keys or len(keys) > 12 or len(set(map(repr, keys))) != len(keys) or x in _rebound(n.body) or not self._keyed(list(n.body) + list(rest), x):
            return n
        chain = list(n.orelse)
        for k in reversed(keys):
            m = {x: ast.Constant(value=k)}
            test = ast.Compare(left=ast.Name(id=x, ctx=ast.Load()), ops=[ast.Eq()], comparators=[ast.Constant(value=k)])
            if rest:
                test = ast.BoolOp(op=ast.And(), values=[test] + [_Subst(dict(m)).visit(copy.deepcopy(c)) for c in rest])
            body = [_Subst(dict(m)).visit(copy.deepcopy(st)) for st in n.body]
            node = ast.copy_location(ast.If(test=test, body=body, orelse=chain), n)
            chain = [ast.fix_missing_locations(node)]
        return chain[0]


def _function_tables(cls: ast.ClassDef) -> dict:
    """class-level dict displays `T = {"k": f, "m": partial(g, name="x")}` bound once in the class body whose keys are constants and
    whose values are all plain functions defined in the class body (or functools.partial of one with constant keyword arguments
    only):  T -> [(key constant node, function name, [keyword nodes])]"""
    funcs = {st.name for st in cls.body if isinstance(st, ast.FunctionDef) and not st.decorator_list}
    count, out = {}, {}
    for st in cls.body:
        for t in (st.targets if isinstance(st, ast.Assign) else [st.target] if isinstance(st, (ast.AnnAssign, ast.AugAssign)) else []):
            for x in ast.walk(t):
                if isinstance(x, ast.Name):
                    count[x.id] = count.get(x.id, 0) + 1
        if isinstance(st, ast.Assign) and len(st.targets) == 1 and isinstance(st.targets[0], ast.Name) and isinstance(st.value, ast.Dict) and st.value.keys \
                and all(isinstance(k, ast.Constant) for k in st.value.keys) and len({repr(k.value) for k in st.value.keys}) == len(st.value.keys) <= 24:
            rows = []
            for k, v in zip(st.value.keys, st.value.values):
                if isinstance(v, ast.Name) and v.id in funcs:
                    rows.append((k, v.id, []))
                elif isinstance(v, ast.Call) and ast.unparse(v.func) in ("partial", "functools.partial") and len(v.args) == 1 and isinstance(v.args[0], ast.Name) \
                        and v.args[0].id in funcs and all(kw.arg and isinstance(kw.value, ast.Constant) for kw in v.keywords):
                    rows.append((k, v.args[0].id, list(v.keywords)))
                else:
                    rows = None
                    break
            if rows:
                out[st.targets[0].id] = rows
    return {k: v for k, v in out.items() if count.get(k) == 1}


def function_table_dispatch(func, cls: ast.ClassDef):
    """Dispatch through a class-level table of the class's own functions

        reader = self.T.get(key)                 if key == "k":
        if reader is not None:            ->         self.f(value)
            reader(self, value)                  elif key == "m":
                                                     self.g(value, name="x")

    `X = <self|cls|Class>.T.get(K)` / `.T[K]` (T: _function_tables, K a plain name) followed, in the same block, by statements that use
    X only as the callee of `X(<receiver>, args..)` and in `X is None` / `X is not None` / truth tests, is the if/elif chain over the
    keys it abbreviates: in every arm X IS that function -- called with the instance first it is the method call -- and in the
    final arm (no such key) X is None for `.get` (for `T[K]` the KeyError is raised).  The helpers called in the arms can then be put
    back like any other (expand_helpers).  Anything else (X escaping, re-bound, a table that is edited) is left as written."""
    tabs = _function_tables(cls)
    if not tabs:
        return func
    edited = set()
    for n in ast.walk(cls):
        if isinstance(n, ast.Attribute) and isinstance(n.ctx, (ast.Store, ast.Del)):
            edited.add(n.attr)
        elif isinstance(n, ast.Subscript) and isinstance(n.ctx, (ast.Store, ast.Del)) and isinstance(n.value, ast.Attribute):
            edited.add(n.value.attr)
        elif isinstance(n, ast.Call) and isinstance(n.func, ast.Attribute) and isinstance(n.func.value, ast.Attribute) and n.func.attr in MUTATORS:
            edited.add(n.func.value.attr)
        elif isinstance(n, ast.Call) and isinstance(n.func, ast.Name) and n.func.id in ("setattr", "delattr") and len(n.args) >= 2:
            # a computed attribute name: any identifier spelled as a string in the class may be meant
            edited |= {n.args[1].value} if isinstance(n.args[1], ast.Constant) else \
                {c.value for c in ast.walk(cls) if isinstance(c, ast.Constant) and isinstance(c.value, str) and c.value.isidentifier()}
    tabs = {k: v for k, v in tabs.items() if k not in edited}
    recvs = {"self", "cls", cls.name}

    def lookup(v):
        """(table rows, key name, via get?) of `<recv>.T.get(K[, None])` / `<recv>.T[K]`"""
        if isinstance(v, ast.Call) and isinstance(v.func, ast.Attribute) and v.func.attr == "get" and not v.keywords and 1 <= len(v.args) <= 2 \
                and (len(v.args) == 1 or (isinstance(v.args[1], ast.Constant) and v.args[1].value is None)):
            tab, k, get = v.func.value, v.args[0], True
        elif isinstance(v, ast.Subscript) and isinstance(v.ctx, ast.Load):
            tab, k, get = v.value, v.slice, False
        else:
            return None
        if isinstance(tab, ast.Attribute) and isinstance(tab.value, ast.Name) and tab.value.id in recvs and tab.attr in tabs and isinstance(k, ast.Name):
            return tabs[tab.attr], k.id, get
        return None

    class Bind(ast.NodeTransformer):
        """X := the function `f` with keywords kws (f None: X is None)"""
        def __init__(self, x, f, kws):
            self.x, self.f, self.kws, self.ok = x, f, kws, True

        def visit_Call(self, n):
            if isinstance(n.func, ast.Name) and n.func.id == self.x:
                n.args = [self.visit(a) for a in n.args]
                n.keywords = [self.visit(k) for k in n.keywords]
                if self.f is None or not n.args or not isinstance(n.args[0], ast.Name) or isinstance(n.args[0], ast.Starred) \
                        or any(k.arg is None or k.arg in {q.arg for q in self.kws} for k in n.keywords):
                    self.ok = self.ok and self.f is None        # (reached only where X is None: pruned below, checked afterwards)
                    return n
                return ast.copy_location(ast.Call(func=ast.copy_location(ast.Attribute(value=n.args[0], attr=self.f, ctx=ast.Load()), n),
                                                  args=n.args[1:], keywords=list(n.keywords) + [copy.deepcopy(k) for k in self.kws]), n)
            return self.generic_visit(n)

        def visit_Compare(self, n):
            if isinstance(n.left, ast.Name) and n.left.id == self.x and len(n.ops) == 1 and isinstance(n.ops[0], (ast.Is, ast.IsNot)) \
                    and isinstance(n.comparators[0], ast.Constant) and n.comparators[0].value is None:
                return ast.copy_location(ast.Constant(value=(self.f is None) == isinstance(n.ops[0], ast.Is)), n)
            return self.generic_visit(n)

        def _truth(self, t):
            if isinstance(t, ast.Name) and t.id == self.x:
                return ast.copy_location(ast.Constant(value=self.f is not None), t)
            if isinstance(t, ast.UnaryOp) and isinstance(t.op, ast.Not):
                t.operand = self._truth(t.operand)
            elif isinstance(t, ast.BoolOp):
                t.values = [self._truth(v) for v in t.values]
            return t

        def visit_If(self, n):
            n.test = self._truth(n.test)
            n = self.generic_visit(n)
            t = n.test
            # `c and False` / `c or True` with a side-effect free c decides the statement
            if isinstance(t, ast.BoolOp) and all(isinstance(v, ast.Constant) or _pure(v) for v in t.values):
                dec = [v for v in t.values if isinstance(v, ast.Constant) and bool(v.value) != isinstance(t.op, ast.And)]
                if dec:
                    n.test = ast.copy_location(ast.Constant(value=bool(dec[0].value)), t)
            return n

        visit_While = visit_If

        def visit_IfExp(self, n):
            n.test = self._truth(n.test)
            return self.generic_visit(n)

    def block(stmts):
        for i, st in enumerate(stmts):
            for fld in ("body", "orelse", "finalbody"):
                b = getattr(st, fld, None)
                if isinstance(b, list) and b and isinstance(b[0], ast.stmt) and not isinstance(st, (ast.FunctionDef, ast.ClassDef, ast.AsyncFunctionDef)):
                    setattr(st, fld, block(b))
            if not (isinstance(st, ast.Assign) and len(st.targets) == 1 and isinstance(st.targets[0], ast.Name)):
                continue
            lk = lookup(st.value)
            x = st.targets[0].id
            rest = stmts[i + 1:]
            if lk is None or not rest or x in _stored(rest) or lk[1] in _stored(rest) or lk[1] == x:
                continue
            rows, key, get = lk
            uses_elsewhere = sum(1 for n in ast.walk(func) if isinstance(n, ast.Name) and n.id == x) - 1 - sum(1 for r in rest for n in ast.walk(r) if isinstance(n, ast.Name) and n.id == x)
            if uses_elsewhere:
                continue
            arms, good = [], True
            for k, f, kws in rows + ([(None, None, [])] if get else []):
                b = Bind(x, f, kws)
                body = [_Fold().visit(b.visit(copy.deepcopy(r))) for r in rest]
                body = _prune_const_ifs(body)
                if any(isinstance(n, ast.Name) and n.id == x for r in body for n in ast.walk(r)):
                    good = False
                    break
                arms.append((k, body or [ast.Pass()]))
            if not good:
                continue
            chain = arms.pop()[1] if get else [ast.Raise(exc=ast.Call(func=ast.Name(id="KeyError", ctx=ast.Load()), args=[ast.Name(id=key, ctx=ast.Load())], keywords=[]), cause=None)]
            for k, body in reversed(arms):
                test = ast.Compare(left=ast.Name(id=key, ctx=ast.Load()), ops=[ast.Eq()], comparators=[copy.deepcopy(k)])
                chain = [ast.If(test=test, body=body, orelse=chain)]
            new = stmts[:i] + chain
            for n in new[i:]:
                ast.copy_location(n, st)
                ast.fix_missing_locations(n)
            return new
        return stmts
    func.body = block(func.body)
    return func


def namedtuple_tables(mod: ast.Module) -> dict:
    """name -> [field names] of the namedtuple types a module defines at its top level or in a class body:
    `X = namedtuple("X", "a b" | ["a", "b"])` and `class X(NamedTuple): a: T ...`"""
    out = {}

    def scan(body):
        for st in body:
            if isinstance(st, ast.Assign) and len(st.targets) == 1 and isinstance(st.targets[0], ast.Name) and isinstance(st.value, ast.Call) \
                    and ast.unparse(st.value.func) in ("namedtuple", "collections.namedtuple") and len(st.value.args) >= 2:
                spec = st.value.args[1]
                if isinstance(spec, ast.Constant) and isinstance(spec.value, str):
                    out[st.targets[0].id] = spec.value.replace(",", " ").split()
                elif isinstance(spec, (ast.List, ast.Tuple)) and all(isinstance(e, ast.Constant) and isinstance(e.value, str) for e in spec.elts):
                    out[st.targets[0].id] = [e.value for e in spec.elts]
            elif isinstance(st, ast.ClassDef):
                if any(ast.unparse(b) in ("NamedTuple", "typing.NamedTuple") for b in st.bases):
                    out[st.name] = [x.target.id for x in st.body if isinstance(x, ast.AnnAssign) and isinstance(x.target, ast.Name)]
                else:
                    scan(st.body)
    scan(mod.body)
    return out


def namedtuples_as_tuples(func, table: dict):
    """A local that is only ever bound to instances of ONE namedtuple type of `table` (`rec = T(*fields)`, `T._make(fields)`,
    `T(a, b, c)`, through self / cls / a module too) is the plain tuple of its fields: the constructor becomes `tuple(fields)` / the
    tuple literal in field order, and `rec.name` becomes `rec[k]`.  Records are then positions again, whatever they are called."""
    if not table:
        return func

    def type_of(call):
        if not isinstance(call, ast.Call):
            return None, None
        f = call.func
        make = isinstance(f, ast.Attribute) and f.attr == "_make"
        if make:
            f = f.value
        name = f.id if isinstance(f, ast.Name) else f.attr if isinstance(f, ast.Attribute) else None
        return (name, make) if name in table else (None, None)

    def as_tuple(call):
        name, make = type_of(call)
        fields = table[name]
        if make:
            if len(call.args) == 1 and not call.keywords:
                return ast.Call(func=ast.Name(id="tuple", ctx=ast.Load()), args=[call.args[0]], keywords=[])
            return None
        if len(call.args) == 1 and isinstance(call.args[0], ast.Starred) and not call.keywords:
            return ast.Call(func=ast.Name(id="tuple", ctx=ast.Load()), args=[call.args[0].value], keywords=[])
        if any(isinstance(a, ast.Starred) for a in call.args) or any(k.arg is None for k in call.keywords):
            return None
        given = dict(zip(fields, call.args))
        given.update({k.arg: k.value for k in call.keywords})
        if len(call.args) > len(fields) or set(given) != set(fields):
            return None
        return ast.Tuple(elts=[given[f_] for f_ in fields], ctx=ast.Load())
    binds = {}
    for n in ast.walk(func):
        if isinstance(n, ast.Name) and isinstance(n.ctx, (ast.Store, ast.Del)):
            binds.setdefault(n.id, []).append(None)
    for n in ast.walk(func):
        if isinstance(n, (ast.Assign, ast.AnnAssign)) and n.value is not None:
            tg = n.targets if isinstance(n, ast.Assign) else [n.target]
            if len(tg) == 1 and isinstance(tg[0], ast.Name):
                t, _ = type_of(n.value)
                if t is not None and as_tuple(n.value) is not None:
                    lst = binds[tg[0].id]
                    lst[lst.index(None)] = t
    params = {a.arg for a in func.args.posonlyargs + func.args.args + func.args.kwonlyargs}
    recs = {v: ts[0] for v, ts in binds.items() if v not in params and ts and None not in ts and len(set(ts)) == 1}
    if not recs:
        return func

    class T(ast.NodeTransformer):
        def visit_Attribute(self, n):
            self.generic_visit(n)
            if isinstance(n.ctx, ast.Load) and isinstance(n.value, ast.Name) and n.value.id in recs and n.attr in table[recs[n.value.id]]:
                return ast.copy_location(ast.Subscript(value=n.value, slice=ast.Constant(value=table[recs[n.value.id]].index(n.attr)), ctx=ast.Load()), n)
            return n

        def visit_Assign(self, n):
            self.generic_visit(n)
            if len(n.targets) == 1 and isinstance(n.targets[0], ast.Name) and n.targets[0].id in recs:
                n.value = ast.copy_location(as_tuple(n.value), n.value)
            return n
    func.body = [T().visit(st) for st in func.body]
    return ast.fix_missing_locations(func)


def fold_static(func, namedtuples: dict | None = None):
    """partial evaluation of the literal part of `func` (in place; see the section comment).  Idempotent; a construct it cannot fold
    safely is left as written.  `namedtuples`: namedtuple_tables of the module (records become plain tuples first)."""
    try:
        if namedtuples:
            namedtuples_as_tuples(func, namedtuples)
        for _ in range(4):
            before = ast.dump(func)
            func.body = [_Fold().visit(st) for st in func.body]
            func.body = _prune_const_ifs(func.body) or [ast.Pass()]
            func.body = _unroll_block(func.body, {}, static=True)
            func.body = [_TableDispatch().visit(st) for st in func.body]
            func.body = [_Fold().visit(st) for st in func.body]
            func.body = _prune_const_ifs(func.body) or [ast.Pass()]
            _drop_dead_tables(func)
            inline_local_defs(func)
            ast.fix_missing_locations(func)
            if ast.dump(func) == before:
                break
    except RecursionError:
        pass
    return func
