"""Behaviour-preserving AST normalisations applied before any rule looks at a function, so that a rule does not depend on
which of several equivalent spellings the source uses.  All are classical compiler transformations over the syntax tree --
nothing is evaluated:

  unroll_static_loops   `for T in <literal tuple/list>` (or a local bound to one just before) -> the body once per element, the
                        loop targets replaced by the element's expressions
  inline_local_defs     a nested `def h(p): return e` / `h = lambda p: e` (or a nested def with straight-line statements and one
                        trailing return) used in the same function -> its body at the call site
  index_loops_to_enumerate  `for i in range(len(X)): x = X[i] ...` -> `for i, x in enumerate(X): ...` (X neither re-bound nor mutated in the body)
  inline_stmt_calls     a call that is a whole statement (`h(a)`, `x = h(a)`, `x[i] = h(a)`, `x += h(a)`, `return h(a)`) to a helper
                        with straight-line control flow at its top level and at most one trailing return -> the helper's
                        statements with parameters renamed to the arguments and locals made unique

A transformation that cannot be applied safely (re-assigned names, break/continue, *args, generators, early returns) leaves the
code as it is; the rules then see the original spelling."""
from __future__ import annotations

import ast
import copy
import itertools

_counter = itertools.count(1)
MUTATORS = ("append", "extend", "add", "update", "insert", "pop", "remove", "clear", "sort", "reverse", "setdefault", "popitem", "discard")


# ----------------------------------------------------------------------------------------------------------------- helpers

def _loaded(node) -> set:
    return {n.id for n in ast.walk(node) if isinstance(n, ast.Name) and isinstance(n.ctx, ast.Load)}


def _stored(stmts) -> set:
    """names bound or mutated in place anywhere inside the statements"""
    out = set()
    for st in stmts:
        for n in ast.walk(st):
            if isinstance(n, ast.Name) and isinstance(n.ctx, (ast.Store, ast.Del)):
                out.add(n.id)
            elif isinstance(n, (ast.FunctionDef, ast.ClassDef, ast.AsyncFunctionDef)):
                out.add(n.name)
            elif isinstance(n, ast.Call) and isinstance(n.func, ast.Attribute) and isinstance(n.func.value, ast.Name) and n.func.attr in MUTATORS:
                out.add(n.func.value.id)
            elif isinstance(n, (ast.Assign, ast.AugAssign, ast.AnnAssign)):
                tg = n.targets if isinstance(n, ast.Assign) else [n.target]
                for t in tg:
                    b = t
                    while isinstance(b, (ast.Subscript, ast.Attribute)):
                        b = b.value
                    if isinstance(b, ast.Name) and b is not t:
                        out.add(b.id)
    return out


class _Subst(ast.NodeTransformer):
    """replace loaded names by expressions (deep copies)"""

    def __init__(self, m):
        self.m = m

    def visit_Name(self, n):
        if isinstance(n.ctx, ast.Load) and n.id in self.m:
            return ast.copy_location(copy.deepcopy(self.m[n.id]), n)
        return n

    # names bound by a comprehension / lambda shadow the outer ones
    def _shadow(self, n, names):
        hidden = {k: self.m.pop(k) for k in list(self.m) if k in names}
        try:
            return self.generic_visit(n)
        finally:
            self.m.update(hidden)

    def visit_Lambda(self, n):
        return self._shadow(n, {a.arg for a in n.args.args + n.args.kwonlyargs})

    def _comp(self, n):
        names = {x.id for g in n.generators for x in ast.walk(g.target) if isinstance(x, ast.Name)}
        # the first iterable is evaluated in the enclosing scope
        if n.generators:
            n.generators[0].iter = self.visit(n.generators[0].iter)
        hidden = {k: self.m.pop(k) for k in list(self.m) if k in names}
        try:
            first = n.generators[0].iter if n.generators else None
            out = self.generic_visit(n)
            if first is not None:
                out.generators[0].iter = first
            return out
        finally:
            self.m.update(hidden)

    visit_ListComp = visit_SetComp = visit_GeneratorExp = visit_DictComp = _comp


class _Rename(ast.NodeTransformer):
    def __init__(self, m):
        self.m = m

    def visit_Name(self, n):
        if n.id in self.m:
            n.id = self.m[n.id]
        return n

    def visit_arg(self, n):
        return n


def _top_level_jumps(stmts) -> bool:
    """break / continue that belong to the enclosing loop (not to a loop nested in the statements)"""
    def rec(node):
        for ch in ast.iter_child_nodes(node):
            if isinstance(ch, (ast.Break, ast.Continue)):
                return True
            if isinstance(ch, (ast.For, ast.While, ast.FunctionDef, ast.Lambda, ast.ClassDef)):
                # `else:` of an inner loop still belongs to the outer one, but that is rare enough to refuse
                if any(isinstance(x, (ast.Break, ast.Continue)) for s in getattr(ch, "orelse", []) for x in ast.walk(s)):
                    return True
                continue
            if rec(ch):
                return True
        return False
    return any(isinstance(s, (ast.Break, ast.Continue)) or rec(s) for s in stmts)


# --------------------------------------------------------------------------------------------------------- static loop unrolling

def _literal_seq(node):
    if isinstance(node, (ast.Tuple, ast.List)) and 1 <= len(node.elts) <= 8 and not any(isinstance(e, ast.Starred) for e in node.elts):
        return node
    return None


def _pure(e) -> bool:
    """an expression that can be copied to several places: no calls except on literals/names methods are avoided altogether"""
    for n in ast.walk(e):
        if isinstance(n, (ast.Call, ast.Await, ast.Yield, ast.YieldFrom, ast.NamedExpr, ast.Lambda, ast.ListComp, ast.SetComp, ast.DictComp, ast.GeneratorExp)):
            return False
    return True


def _unroll_one(loop: ast.For, seq):
    if loop.orelse or _top_level_jumps(loop.body):
        return None
    tg = loop.target
    if isinstance(tg, ast.Name):
        names = [tg.id]
    elif isinstance(tg, (ast.Tuple, ast.List)) and all(isinstance(e, ast.Name) for e in tg.elts):
        names = [e.id for e in tg.elts]
    else:
        return None
    if set(names) & _stored(loop.body):
        return None
    out = []
    for e in seq.elts:
        if isinstance(tg, ast.Name):
            m = {tg.id: e}
        else:
            if not isinstance(e, (ast.Tuple, ast.List)) or len(e.elts) != len(names) or any(isinstance(x, ast.Starred) for x in e.elts):
                return None
            m = dict(zip(names, e.elts))
        if not all(_pure(v) for v in m.values()):
            return None
        for st in loop.body:
            out.append(_Subst(dict(m)).visit(copy.deepcopy(st)))
    return out


def _unroll_block(stmts, lits):
    """lits: name -> literal sequence node still valid at this point"""
    out = []
    lits = dict(lits)
    for st in stmts:
        if isinstance(st, ast.For):
            seq = _literal_seq(st.iter) or (lits.get(st.iter.id) if isinstance(st.iter, ast.Name) else None)
            if seq is not None:
                body_st = _stored(st.body)
                free = set().union(*[_loaded(e) for e in seq.elts]) if seq.elts else set()
                if not (free & body_st) and not (isinstance(st.iter, ast.Name) and st.iter.id in body_st):
                    un = _unroll_one(st, seq)
                    if un is not None:
                        un = _unroll_block(un, lits)
                        for u in un:
                            ast.fix_missing_locations(u)
                        out.extend(un)
                        continue
        # recurse into compound statements with the literals that survive the whole statement
        inner_st = _stored([st])
        surviving = {k: v for k, v in lits.items() if k not in inner_st and not (set().union(*[_loaded(e) for e in v.elts]) & inner_st)}
        for fld in ("body", "orelse", "finalbody"):
            b = getattr(st, fld, None)
            if isinstance(b, list) and b and isinstance(b[0], ast.stmt) and not isinstance(st, (ast.FunctionDef, ast.ClassDef, ast.AsyncFunctionDef)):
                setattr(st, fld, _unroll_block(b, surviving))
        if isinstance(st, ast.Try):
            for h in st.handlers:
                h.body = _unroll_block(h.body, surviving)
        # update the table
        for k in list(lits):
            if k in inner_st or (set().union(*[_loaded(e) for e in lits[k].elts]) & inner_st):
                del lits[k]
        if isinstance(st, ast.Assign) and len(st.targets) == 1 and isinstance(st.targets[0], ast.Name):
            seq = _literal_seq(st.value)
            if seq is not None and all(_pure(e) for e in seq.elts) and st.targets[0].id not in set().union(*[_loaded(e) for e in seq.elts]):
                lits[st.targets[0].id] = seq
        out.append(st)
    return out


def unroll_static_loops(func):
    func.body = _unroll_block(func.body, {})
    return func


# ------------------------------------------------------------------------------------------------------------ call inlining

def _simple_callee(callee) -> str | None:
    """'expr' (body is one return), 'stmts' (straight-line top level, at most one trailing return), or None"""
    if not isinstance(callee, (ast.FunctionDef,)):
        return None
    a = callee.args
    if a.vararg or a.kwarg or a.posonlyargs:
        return None
    for n in ast.walk(callee):
        if isinstance(n, (ast.Yield, ast.YieldFrom, ast.Global, ast.Nonlocal, ast.Await)):
            return None
    body = [s for s in callee.body if not (isinstance(s, ast.Expr) and isinstance(s.value, ast.Constant))]
    if not body:
        return None
    if len(body) == 1 and isinstance(body[0], ast.Return) and body[0].value is not None:
        return "expr"
    for s in body[:-1]:
        if any(isinstance(n, ast.Return) for n in ast.walk(s) if not isinstance(n, (ast.FunctionDef, ast.Lambda))):
            return None
    last = body[-1]
    if not isinstance(last, ast.Return) and any(isinstance(n, ast.Return) for n in ast.walk(last)):
        return None
    return "stmts"


def _bind_args(callee, call, skip_first: bool):
    """param -> argument expression (defaults filled in) or None"""
    if any(isinstance(x, ast.Starred) for x in call.args) or any(k.arg is None for k in call.keywords):
        return None
    params = [p.arg for p in callee.args.args]
    if skip_first:
        if not params:
            return None
        params = params[1:]
    kwonly = [p.arg for p in callee.args.kwonlyargs]
    if len(call.args) > len(params):
        return None
    given = dict(zip(params, call.args))
    for k in call.keywords:
        if k.arg in given or k.arg not in params + kwonly:
            return None
        given[k.arg] = k.value
    defaults = dict(zip(params[len(params) - len(callee.args.defaults):], callee.args.defaults))
    defaults.update({p: d for p, d in zip(kwonly, callee.args.kw_defaults) if d is not None})
    for p in params + kwonly:
        if p not in given:
            if p not in defaults:
                return None
            given[p] = defaults[p]
    return given


def _callee_body(callee):
    return [s for s in callee.body if not (isinstance(s, ast.Expr) and isinstance(s.value, ast.Constant))]


def inline_expr(callee, call, recv=None):
    """expression equal to `call` for an 'expr' callee, or None"""
    decs = {ast.unparse(d) for d in callee.decorator_list}
    if decs - {"staticmethod", "classmethod"}:
        return None
    skip = recv is not None and "staticmethod" not in decs
    given = _bind_args(callee, call, skip)
    if given is None:
        return None
    body = _callee_body(callee)
    m = dict(given)
    if skip:
        m[callee.args.args[0].arg] = recv
    ret = copy.deepcopy(body[0].value)
    # an argument that is not a plain name / constant / attribute chain and is used more than once would be duplicated
    uses = {}
    for n in ast.walk(ret):
        if isinstance(n, ast.Name) and isinstance(n.ctx, ast.Load):
            uses[n.id] = uses.get(n.id, 0) + 1
    for p, e in m.items():
        if uses.get(p, 0) > 1 and not _pure(e):
            return None
    return _Subst(m).visit(ret)


def inline_stmts(callee, call, recv=None):
    """(statements, return expression | None) equal to executing `call`, or None"""
    decs = {ast.unparse(d) for d in callee.decorator_list}
    if decs - {"staticmethod", "classmethod"}:
        return None
    skip = recv is not None and "staticmethod" not in decs
    given = _bind_args(callee, call, skip)
    if given is None:
        return None
    k = next(_counter)
    ren = {}
    pre = []
    if skip:
        if not isinstance(recv, ast.Name):
            return None
        ren[callee.args.args[0].arg] = recv.id
    body = copy.deepcopy(_callee_body(callee))
    stored = _stored(body)
    for p, e in given.items():
        if isinstance(e, ast.Name) and p not in stored:
            ren[p] = e.id
        else:
            fresh = f"_inl{k}_{p}"
            ren[p] = fresh
            pre.append(ast.Assign(targets=[ast.Name(id=fresh, ctx=ast.Store())], value=copy.deepcopy(e)))
    locals_ = {n.id for b in body for n in ast.walk(b) if isinstance(n, ast.Name) and isinstance(n.ctx, ast.Store)} - set(ren)
    for l in locals_:
        ren[l] = f"_inl{k}_{l}"
    ret = None
    if body and isinstance(body[-1], ast.Return):
        ret = body[-1].value
        body = body[:-1]
    body = [_Rename(ren).visit(b) for b in body]
    if ret is not None:
        ret = _Rename(ren).visit(ret)
    return pre + body, ret


def inline_stmt_calls(func, resolve, max_depth: int = 3):
    """resolve(call) -> (callee FunctionDef, receiver expr | None) | None.  Whole-statement calls are replaced by the callee's
    statements."""
    def value_of(st):
        if isinstance(st, ast.Expr):
            return st.value
        if isinstance(st, (ast.Assign, ast.AugAssign, ast.Return)):
            return st.value
        if isinstance(st, ast.AnnAssign):
            return st.value
        return None

    def expand(stmts, depth):
        out = []
        for st in stmts:
            for fld in ("body", "orelse", "finalbody"):
                b = getattr(st, fld, None)
                if isinstance(b, list) and b and isinstance(b[0], ast.stmt) and not isinstance(st, (ast.FunctionDef, ast.ClassDef, ast.AsyncFunctionDef)):
                    setattr(st, fld, expand(b, depth))
            if isinstance(st, ast.Try):
                for h in st.handlers:
                    h.body = expand(h.body, depth)
            c = value_of(st)
            if isinstance(c, ast.Call) and depth < max_depth:
                r = resolve(c)
                if r is not None and r[0] is not func:
                    callee, recv = r
                    kind = _simple_callee(callee)
                    if kind == "expr":
                        e = inline_expr(callee, c, recv)
                        if e is not None:
                            st.value = e
                            ast.fix_missing_locations(st)
                            out.extend(expand([st], depth + 1))
                            continue
                    elif kind == "stmts":
                        res = inline_stmts(callee, c, recv)
                        if res is not None:
                            body, ret = res
                            new = list(body)
                            if isinstance(st, ast.Expr):
                                pass          # a value returned and ignored
                            elif ret is None:
                                st.value = ast.Constant(value=None)
                                new.append(st)
                            else:
                                st.value = ret
                                new.append(st)
                            for b in new:
                                ast.copy_location(b, st) if not hasattr(b, "lineno") else None
                                ast.fix_missing_locations(b)
                            out.extend(expand(new, depth + 1))
                            continue
            out.append(st)
        return out
    func.body = expand(func.body, 0)
    return func


class _ExprInliner(ast.NodeTransformer):
    """calls to 'expr' helpers anywhere inside expressions"""

    def __init__(self, resolve, owner, depth=0):
        self.resolve, self.owner, self.depth = resolve, owner, depth
        self.changed = False

    def visit_Call(self, n):
        self.generic_visit(n)
        r = self.resolve(n)
        if r is not None and r[0] is not self.owner and _simple_callee(r[0]) == "expr" and self.depth < 3:
            e = inline_expr(r[0], n, r[1])
            if e is not None:
                self.changed = True
                e = _ExprInliner(self.resolve, self.owner, self.depth + 1).visit(e)
                return ast.copy_location(e, n)
        return n

    def visit_FunctionDef(self, n):
        return n if n is not self.owner else self.generic_visit(n)

    visit_Lambda = lambda self, n: n


def inline_local_defs(func):
    """nested defs / lambdas bound to a local and used only by direct calls in the same function"""
    defs = {}

    def collect(stmts):
        for st in stmts:
            if isinstance(st, ast.FunctionDef) and not st.decorator_list:
                defs.setdefault(st.name, []).append(st)
            elif isinstance(st, ast.Assign) and len(st.targets) == 1 and isinstance(st.targets[0], ast.Name) and isinstance(st.value, ast.Lambda):
                lam = st.value
                f = ast.FunctionDef(name=st.targets[0].id, args=lam.args, body=[ast.Return(value=lam.body)], decorator_list=[], returns=None, type_comment=None)
                try:
                    f.type_params = []
                except Exception:
                    pass
                ast.copy_location(f, st)
                ast.fix_missing_locations(f)
                defs.setdefault(st.targets[0].id, []).append(f)
            if not isinstance(st, (ast.FunctionDef, ast.ClassDef, ast.AsyncFunctionDef)):
                for fld in ("body", "orelse", "finalbody"):
                    b = getattr(st, fld, None)
                    if isinstance(b, list) and b and isinstance(b[0], ast.stmt):
                        collect(b)
    collect(func.body)
    if not defs:
        return func
    # a name defined once, never re-bound otherwise, whose free variables are not re-bound after the definition (checked
    # coarsely: free variables of the helper that the enclosing function stores at most once)
    store_count = {}
    for n in ast.walk(func):
        if isinstance(n, ast.Name) and isinstance(n.ctx, ast.Store):
            store_count[n.id] = store_count.get(n.id, 0) + 1
    usable = {}
    for name, lst in defs.items():
        if len(lst) != 1:
            continue
        d = lst[0]
        is_lambda = not any(d is st for st in ast.walk(func))
        if store_count.get(name, 0) > (1 if is_lambda else 0):
            continue
        kind = _simple_callee(d)
        if kind is None:
            continue
        params = {a.arg for a in d.args.args + d.args.kwonlyargs}
        own = {n.id for n in ast.walk(d) if isinstance(n, ast.Name) and isinstance(n.ctx, ast.Store)}
        free = {n.id for s in d.body for n in ast.walk(s) if isinstance(n, ast.Name) and isinstance(n.ctx, ast.Load)} - params - own
        if any(store_count.get(v, 0) > 1 for v in free):
            continue
        # used other than by a direct call (passed as a value, returned): keep
        refs = [n for n in ast.walk(func) if isinstance(n, ast.Name) and n.id == name and isinstance(n.ctx, ast.Load)]
        calls = [n for n in ast.walk(func) if isinstance(n, ast.Call) and isinstance(n.func, ast.Name) and n.func.id == name]
        if len(refs) != len(calls):
            continue
        if any(isinstance(n, ast.Call) and isinstance(n.func, ast.Name) and n.func.id == name for n in ast.walk(d)):
            continue          # recursive
        usable[name] = d
    if not usable:
        return func

    def resolve(call):
        if isinstance(call.func, ast.Name) and call.func.id in usable:
            return usable[call.func.id], None
        return None
    inline_stmt_calls(func, resolve)
    inl = _ExprInliner(resolve, func)
    # expression position: every statement's expressions, but not inside the helpers themselves
    new_body = []
    for st in func.body:
        new_body.append(inl.visit(st))
    func.body = new_body
    # drop definitions that are no longer referenced
    still = {n.func.id for n in ast.walk(func) if isinstance(n, ast.Call) and isinstance(n.func, ast.Name) and n.func.id in usable}

    def prune(stmts):
        out = []
        for st in stmts:
            if isinstance(st, ast.FunctionDef) and st.name in usable and st.name not in still:
                continue
            if isinstance(st, ast.Assign) and len(st.targets) == 1 and isinstance(st.targets[0], ast.Name) and isinstance(st.value, ast.Lambda) \
                    and st.targets[0].id in usable and st.targets[0].id not in still:
                continue
            if not isinstance(st, (ast.FunctionDef, ast.ClassDef, ast.AsyncFunctionDef)):
                for fld in ("body", "orelse", "finalbody"):
                    b = getattr(st, fld, None)
                    if isinstance(b, list) and b and isinstance(b[0], ast.stmt):
                        nb = prune(b)
                        setattr(st, fld, nb if nb or fld != "body" else [ast.copy_location(ast.Pass(), st)])
            out.append(st)
        return out
    func.body = prune(func.body) or [ast.Pass()]
    ast.fix_missing_locations(func)
    return func


# ------------------------------------------------------------------------------------------- index loops -> enumerate

class _IndexLoops(ast.NodeTransformer):
    """`for i in range(len(X)): .. X[i] ..`  ->  `for i, x in enumerate(X): .. x ..`  when X is a plain name / attribute chain that the
    body neither re-binds nor mutates and `i` is not re-bound: the loop visits the same elements in the same order.  A leading
    `x = X[i]` supplies the element's name."""

    def visit_For(self, n):
        self.generic_visit(n)
        it = n.iter
        if n.orelse or not isinstance(n.target, ast.Name) or not (isinstance(it, ast.Call) and isinstance(it.func, ast.Name) and it.func.id == "range"
                                                                  and len(it.args) == 1 and not it.keywords):
            return n
        ln = it.args[0]
        if not (isinstance(ln, ast.Call) and isinstance(ln.func, ast.Name) and ln.func.id == "len" and len(ln.args) == 1 and not ln.keywords):
            return n
        X = ln.args[0]
        b = X
        while isinstance(b, ast.Attribute):
            b = b.value
        if not isinstance(b, ast.Name) or not _pure(X):
            return n
        i = n.target.id
        xs = ast.unparse(X)
        stored = _stored(n.body)
        if i in stored or b.id in stored:
            return n

        def is_elem(e):
            return isinstance(e, ast.Subscript) and isinstance(e.ctx, ast.Load) and ast.unparse(e.value) == xs \
                and isinstance(e.slice, ast.Name) and e.slice.id == i
        body = list(n.body)
        first = body[0] if body else None
        if isinstance(first, ast.Assign) and len(first.targets) == 1 and isinstance(first.targets[0], ast.Name) and is_elem(first.value) \
                and first.targets[0].id not in _stored(body[1:]) and first.targets[0].id != i:
            name = first.targets[0].id
            body = body[1:] or [ast.copy_location(ast.Pass(), first)]
        elif any(is_elem(e) for st in body for e in ast.walk(st)):
            name = f"_elem{next(_counter)}"
        else:
            return n

        class R(ast.NodeTransformer):
            def visit_Subscript(self, e):
                if is_elem(e):
                    return ast.copy_location(ast.Name(id=name, ctx=ast.Load()), e)
                return self.generic_visit(e)
        n.body = [R().visit(st) for st in body]
        n.target = ast.copy_location(ast.Tuple(elts=[ast.Name(id=i, ctx=ast.Store()), ast.Name(id=name, ctx=ast.Store())], ctx=ast.Store()), n.target)
        n.iter = ast.copy_location(ast.Call(func=ast.Name(id="enumerate", ctx=ast.Load()), args=[X], keywords=[]), it)
        ast.fix_missing_locations(n)
        return n

    def visit_FunctionDef(self, n):
        return n            # nested functions are normalised on their own

    visit_Lambda = visit_AsyncFunctionDef = visit_ClassDef = lambda self, n: n


def index_loops_to_enumerate(func):
    tr = _IndexLoops()
    func.body = [tr.visit(st) for st in func.body]
    return func


def normalize_function(func):
    """the local normalisations (no knowledge of other functions needed)"""
    try:
        inline_local_defs(func)
        index_loops_to_enumerate(func)
        unroll_static_loops(func)
    except RecursionError:
        pass
    return func
