"""Behaviour-preserving AST normalisations applied before any rule looks at a function, so that a rule does not depend on
which of several equivalent spellings the source uses.  All are classical compiler transformations over the syntax tree --
nothing is evaluated:

  unroll_static_loops   `for T in <literal tuple/list>` (or a local bound to one just before) -> the body once per element, the
                        loop targets replaced by the element's expressions;  a table scan `for T in <literal>: if C: S; break`
                        [`else: E`] -> the if/elif chain over the rows [with `else: E`]
  specialise_dispatch   `if c1: def f.. elif c2: def f.. else: raise` followed by statements using f -> the statements moved into each
                        arm with that arm's f (closure dispatch is the if/elif chain it abbreviates)
  inline_local_defs     a nested `def h(p): return e` / `h = lambda p: e` (or a nested def with straight-line statements and one
                        trailing return) used in the same function -> its body at the call site
  index_loops_to_enumerate  `for i in range(len(X)): x = X[i] ...` -> `for i, x in enumerate(X): ...` (X neither re-bound nor mutated in the body)
  inline_stmt_calls     a call that is a whole statement (`h(a)`, `x = h(a)`, `x[i] = h(a)`, `x += h(a)`, `return h(a)`) to a helper
                        with straight-line control flow at its top level and at most one trailing return -> the helper's
                        statements with parameters renamed to the arguments and locals made unique

  const_getattr         `getattr(x, "name")` -> `x.name`
  split_chain_loops     `for T in chain(A, B): S` -> the loop over A followed by the loop over B;  `for c, x in zip(repeat(K), X)` -> the
                        loop over X with c = K

A transformation that cannot be applied safely (re-assigned names, break/continue, *args, generators, early returns) leaves the
code as it is; the rules then see the original spelling."""
from __future__ import annotations

import ast
import copy
import itertools

_counter = itertools.count(1)
MUTATORS = ("append", "extend", "add", "update", "insert", "pop", "remove", "clear", "sort", "reverse", "setdefault", "popitem", "discard")


# ----------------------------------------------------------------------------------------------------------------- helpers

def _loaded(node) -> set:
    return {n.id for n in ast.walk(node) if isinstance(n, ast.Name) and isinstance(n.ctx, ast.Load)}


def _stored(stmts) -> set:
    """names bound or mutated in place anywhere inside the statements"""
    out = set()
    for st in stmts:
        for n in ast.walk(st):
            if isinstance(n, ast.Name) and isinstance(n.ctx, (ast.Store, ast.Del)):
                out.add(n.id)
            elif isinstance(n, (ast.FunctionDef, ast.ClassDef, ast.AsyncFunctionDef)):
                out.add(n.name)
            elif isinstance(n, ast.Call) and isinstance(n.func, ast.Attribute) and isinstance(n.func.value, ast.Name) and n.func.attr in MUTATORS:
                out.add(n.func.value.id)
            elif isinstance(n, (ast.Assign, ast.AugAssign, ast.AnnAssign)):
                tg = n.targets if isinstance(n, ast.Assign) else [n.target]
                for t in tg:
                    b = t
                    while isinstance(b, (ast.Subscript, ast.Attribute)):
                        b = b.value
                    if isinstance(b, ast.Name) and b is not t:
                        out.add(b.id)
    return out


def _rebound(stmts) -> set:
    """names (re)bound anywhere inside the statements -- unlike _stored, in-place mutation does not count"""
    out = set()
    for st in stmts:
        for n in ast.walk(st):
            if isinstance(n, ast.Name) and isinstance(n.ctx, (ast.Store, ast.Del)):
                out.add(n.id)
            elif isinstance(n, (ast.FunctionDef, ast.ClassDef, ast.AsyncFunctionDef)):
                out.add(n.name)
    return out


class _Subst(ast.NodeTransformer):
    """replace loaded names by expressions (deep copies)"""

    def __init__(self, m):
        self.m = m

    def visit_Name(self, n):
        if isinstance(n.ctx, ast.Load) and n.id in self.m:
            return ast.copy_location(copy.deepcopy(self.m[n.id]), n)
        return n

    # names bound by a comprehension / lambda shadow the outer ones
    def _shadow(self, n, names):
        hidden = {k: self.m.pop(k) for k in list(self.m) if k in names}
        try:
            return self.generic_visit(n)
        finally:
            self.m.update(hidden)

    def visit_Lambda(self, n):
        return self._shadow(n, {a.arg for a in n.args.args + n.args.kwonlyargs})

    def _comp(self, n):
        names = {x.id for g in n.generators for x in ast.walk(g.target) if isinstance(x, ast.Name)}
        # the first iterable is evaluated in the enclosing scope
        if n.generators:
            n.generators[0].iter = self.visit(n.generators[0].iter)
        hidden = {k: self.m.pop(k) for k in list(self.m) if k in names}
        try:
            first = n.generators[0].iter if n.generators else None
            out = self.generic_visit(n)
            if first is not None:
                out.generators[0].iter = first
            return out
        finally:
            self.m.update(hidden)

    visit_ListComp = visit_SetComp = visit_GeneratorExp = visit_DictComp = _comp


class _Rename(ast.NodeTransformer):
    def __init__(self, m):
        self.m = m

    def visit_Name(self, n):
        if n.id in self.m:
            n.id = self.m[n.id]
        return n

    def visit_arg(self, n):
        return n


def _top_level_jumps(stmts) -> bool:
    """break / continue that belong to the enclosing loop (not to a loop nested in the statements)"""
    def rec(node):
        for ch in ast.iter_child_nodes(node):
            if isinstance(ch, (ast.Break, ast.Continue)):
                return True
            if isinstance(ch, (ast.For, ast.While, ast.FunctionDef, ast.Lambda, ast.ClassDef)):
                # `else:` of an inner loop still belongs to the outer one, but that is rare enough to refuse
                if any(isinstance(x, (ast.Break, ast.Continue)) for s in getattr(ch, "orelse", []) for x in ast.walk(s)):
                    return True
                continue
            if rec(ch):
                return True
        return False
    return any(isinstance(s, (ast.Break, ast.Continue)) or rec(s) for s in stmts)


# --------------------------------------------------------------------------------------------------------- static loop unrolling

def _literal_seq(node):
    if isinstance(node, (ast.Tuple, ast.List)) and 1 <= len(node.elts) <= 24 and not any(isinstance(e, ast.Starred) for e in node.elts):
        return node
    return None


_CONST_CTORS = {"re.compile", "slice"}


def _pure(e, lambdas: bool = False) -> bool:
    """an expression that can be copied to several places: no calls except on literals/names methods are avoided altogether.
    lambdas=True: a `lambda` EXPRESSION counts as pure (evaluating it runs nothing; its body is not looked into)"""
    todo = [e]
    while todo:
        n = todo.pop()
        if lambdas and isinstance(n, ast.Lambda):
            continue
        if isinstance(n, ast.Call) and ast.unparse(n.func) in _CONST_CTORS and not n.keywords and all(isinstance(a, ast.Constant) for a in n.args):
            continue          # an immutable value built from constants (a compiled pattern): copying the expression copies the value
        if isinstance(n, (ast.Call, ast.Await, ast.Yield, ast.YieldFrom, ast.NamedExpr, ast.Lambda, ast.ListComp, ast.SetComp, ast.DictComp, ast.GeneratorExp)):
            return False
        todo.extend(ast.iter_child_nodes(n))
    return True


def _destructure(target, value):
    """{name: expression} that binding the (possibly nested) tuple `target` to the literal `value` amounts to; None when the shapes differ"""
    if isinstance(target, ast.Name):
        return {target.id: value}
    if isinstance(target, (ast.Tuple, ast.List)) and isinstance(value, (ast.Tuple, ast.List)) and len(value.elts) == len(target.elts) \
            and not any(isinstance(x, ast.Starred) for x in list(value.elts) + list(target.elts)):
        out = {}
        for t, v in zip(target.elts, value.elts):
            m = _destructure(t, v)
            if m is None:
                return None
            out.update(m)
        return out
    return None


def _unroll_one(loop: ast.For, seq):
    if loop.orelse or _top_level_jumps(loop.body):
        return None
    tg = loop.target
    # a name or a (possibly nested) tuple of names: `for (label, width), edge in ...`
    if not all(isinstance(x, (ast.Name, ast.Tuple, ast.List, ast.expr_context)) for x in ast.walk(tg)):
        return None
    names = [x.id for x in ast.walk(tg) if isinstance(x, ast.Name)]
    # the loop targets must not be RE-BOUND in the body; mutating the object a target names in place (`c.clear()`, `c[k] = v`)
    # is the same operation on the element expression that replaces the target
    if set(names) & _rebound(loop.body):
        return None
    out = []
    for e in seq.elts:
        m = _destructure(tg, e)
        if m is None:
            return None
        if not all(_pure(v, lambdas=True) for v in m.values()):
            return None
        for st in loop.body:
            out.append(_Subst(dict(m)).visit(copy.deepcopy(st)))
    return out


def _scan_chain(loop: ast.For, seq):
    """table scan  `for T in <literal>: if C(T): S(T); break` [`else: E`]  ->  `if C(e1): S(e1) elif C(e2): S(e2) ... [else: E]`
    (the first matching row wins in both spellings; E runs when no row matched)"""
    if len(loop.body) != 1 or not isinstance(loop.body[0], ast.If) or loop.body[0].orelse:
        return None
    inner = loop.body[0]
    if not inner.body or not isinstance(inner.body[-1], ast.Break):
        return None
    rest = inner.body[:-1]
    if _top_level_jumps(rest):
        return None
    tg = loop.target
    if isinstance(tg, ast.Name):
        names = [tg.id]
    elif isinstance(tg, (ast.Tuple, ast.List)) and all(isinstance(e, ast.Name) for e in tg.elts):
        names = [e.id for e in tg.elts]
    else:
        return None
    if set(names) & _stored(loop.body):
        return None
    # the loop variables must not be read after the loop (they would keep the matching row's values)
    chain = list(loop.orelse)
    for e in reversed(seq.elts):
        if isinstance(tg, ast.Name):
            m = {tg.id: e}
        else:
            if not isinstance(e, (ast.Tuple, ast.List)) or len(e.elts) != len(names) or any(isinstance(x, ast.Starred) for x in e.elts):
                return None
            m = dict(zip(names, e.elts))
        if not all(_pure(v) for v in m.values()):
            return None
        test = _Subst(dict(m)).visit(copy.deepcopy(inner.test))
        body = [_Subst(dict(m)).visit(copy.deepcopy(st)) for st in rest] or [ast.Pass()]
        node = ast.If(test=test, body=body, orelse=chain)
        ast.copy_location(node, inner)
        chain = [node]
    return chain


def _unroll_block(stmts, lits, static: bool = False):
    """lits: name -> literal sequence node still valid at this point.  static=True (fold_static): the sequence a loop walks / a
    local is bound to may also be a stdlib expression over literals (zip, enumerate, accumulate, comprehension ... see _static_seq)"""
    out = []
    lits = dict(lits)
    for st in stmts:
        if isinstance(st, ast.For):
            seq = _static_seq(st.iter, lits) if static else (_literal_seq(st.iter) or (lits.get(st.iter.id) if isinstance(st.iter, ast.Name) else None))
            if seq is not None:
                body_st = _stored(st.body)
                free = set().union(*[_loaded(e) for e in seq.elts]) if seq.elts else set()
                if not (free & body_st) and not (_loaded(st.iter) & body_st if static else (isinstance(st.iter, ast.Name) and st.iter.id in body_st)):
                    after = stmts[stmts.index(st) + 1:]
                    tnames = {n.id for n in ast.walk(st.target) if isinstance(n, ast.Name)}
                    un = _scan_chain(st, seq) if not (tnames & set().union(*[_loaded(a) for a in after], set())) else None
                    if un is None:
                        un = _unroll_one(st, seq)
                    if un is not None:
                        un = _unroll_block(un, lits, static)
                        for u in un:
                            ast.fix_missing_locations(u)
                        out.extend(un)
                        continue
        # recurse into compound statements with the literals that survive the whole statement
        inner_st = _stored([st])
        surviving = {k: v for k, v in lits.items() if k not in inner_st and not (set().union(*[_loaded(e) for e in v.elts]) & inner_st)}
        for fld in ("body", "orelse", "finalbody"):
            b = getattr(st, fld, None)
            if isinstance(b, list) and b and isinstance(b[0], ast.stmt) and not isinstance(st, (ast.FunctionDef, ast.ClassDef, ast.AsyncFunctionDef)):
                setattr(st, fld, _unroll_block(b, surviving, static))
        if isinstance(st, ast.Try):
            for h in st.handlers:
                h.body = _unroll_block(h.body, surviving, static)
        # update the table
        for k in list(lits):
            if k in inner_st or (set().union(*[_loaded(e) for e in lits[k].elts]) & inner_st):
                del lits[k]
        if isinstance(st, ast.Assign) and len(st.targets) == 1 and isinstance(st.targets[0], ast.Name):
            seq = _static_seq(st.value, lits) if static else _literal_seq(st.value)
            if seq is not None and all(_pure(e, lambdas=True) for e in seq.elts) and st.targets[0].id not in set().union(*[_loaded(e) for e in seq.elts], set()):
                lits[st.targets[0].id] = seq
                if static and isinstance(st.value, ast.ListComp):
                    # a list comprehension over a literal table IS the list of its substituted elements
                    st.value = ast.fix_missing_locations(ast.copy_location(ast.List(elts=[copy.deepcopy(e) for e in seq.elts], ctx=ast.Load()), st.value))
        out.append(st)
    return out


def module_tables(mod: ast.Module) -> dict:
    """name -> literal tuple/list bound exactly once at module level, never re-bound (`global`) or mutated anywhere in the
    module, whose elements are pure: usable like a local literal by unroll_static_loops"""
    cand, count = {}, {}
    for st in mod.body:
        for n in ast.walk(st) if not isinstance(st, (ast.FunctionDef, ast.AsyncFunctionDef, ast.ClassDef)) else []:
            if isinstance(n, ast.Name) and isinstance(n.ctx, (ast.Store, ast.Del)):
                count[n.id] = count.get(n.id, 0) + 1
        if isinstance(st, ast.Assign) and len(st.targets) == 1 and isinstance(st.targets[0], ast.Name):
            seq = _literal_seq(st.value)
            if seq is not None and all(_pure(e) for e in seq.elts):
                cand[st.targets[0].id] = seq
    if not cand:
        return {}
    bad = set()
    for n in ast.walk(mod):
        if isinstance(n, (ast.Global, ast.Nonlocal)):
            bad |= set(n.names)
        elif isinstance(n, ast.Call) and isinstance(n.func, ast.Attribute) and isinstance(n.func.value, ast.Name) and n.func.attr in MUTATORS:
            bad.add(n.func.value.id)
        elif isinstance(n, (ast.Assign, ast.AugAssign, ast.Delete)):
            for t in (n.targets if isinstance(n, (ast.Assign, ast.Delete)) else [n.target]):
                if isinstance(t, ast.Subscript) and isinstance(t.value, ast.Name):
                    bad.add(t.value.id)
                if isinstance(n, ast.AugAssign) and isinstance(t, ast.Name):
                    bad.add(t.id)
    return {k: v for k, v in cand.items() if count.get(k, 0) == 1 and k not in bad
            and not (set().union(*[_loaded(e) for e in v.elts]) & set(cand))}


def unroll_static_loops(func, tables: dict | None = None):
    lits = {}
    if tables:
        # a module-level table is visible unless the function binds the name itself (parameter, local, nested def)
        a = func.args
        own = {p.arg for p in a.posonlyargs + a.args + a.kwonlyargs} | ({a.vararg.arg} if a.vararg else set()) | ({a.kwarg.arg} if a.kwarg else set()) \
            | _stored(func.body)
        lits = {k: v for k, v in tables.items() if k not in own and not (set().union(*[_loaded(e) for e in v.elts]) & own)}
    func.body = _unroll_block(func.body, lits)
    return func


# ------------------------------------------------------------------------------------------------------------ call inlining

def _simple_callee(callee) -> str | None:
    """'expr' (body is one return), 'stmts' (straight-line top level, at most one trailing return), or None"""
    if not isinstance(callee, (ast.FunctionDef,)):
        return None
    a = callee.args
    if a.vararg or a.kwarg or a.posonlyargs:
        return None
    for n in ast.walk(callee):
        if isinstance(n, (ast.Yield, ast.YieldFrom, ast.Global, ast.Nonlocal, ast.Await)):
            return None
    body = [s for s in callee.body if not (isinstance(s, ast.Expr) and isinstance(s.value, ast.Constant))]
    if not body:
        return None
    if len(body) == 1 and isinstance(body[0], ast.Return) and body[0].value is not None:
        return "expr"
    for s in body[:-1]:
        if any(isinstance(n, ast.Return) for n in ast.walk(s) if not isinstance(n, (ast.FunctionDef, ast.Lambda))):
            return None
    last = body[-1]
    if not isinstance(last, ast.Return) and any(isinstance(n, ast.Return) for n in ast.walk(last)):
        return None
    return "stmts"


def _bind_args(callee, call, skip_first: bool):
    """param -> argument expression (defaults filled in) or None"""
    if any(isinstance(x, ast.Starred) for x in call.args) or any(k.arg is None for k in call.keywords):
        return None
    params = [p.arg for p in callee.args.args]
    if skip_first:
        if not params:
            return None
        params = params[1:]
    kwonly = [p.arg for p in callee.args.kwonlyargs]
    if len(call.args) > len(params):
        return None
    given = dict(zip(params, call.args))
    for k in call.keywords:
        if k.arg in given or k.arg not in params + kwonly:
            return None
        given[k.arg] = k.value
    defaults = dict(zip(params[len(params) - len(callee.args.defaults):], callee.args.defaults))
    defaults.update({p: d for p, d in zip(kwonly, callee.args.kw_defaults) if d is not None})
    for p in params + kwonly:
        if p not in given:
            if p not in defaults:
                return None
            given[p] = defaults[p]
    return given


def _callee_body(callee):
    return [s for s in callee.body if not (isinstance(s, ast.Expr) and isinstance(s.value, ast.Constant))]


def inline_expr(callee, call, recv=None):
    """expression equal to `call` for an 'expr' callee, or None"""
    decs = {ast.unparse(d) for d in callee.decorator_list}
    if decs - {"staticmethod", "classmethod"}:
        return None
    skip = recv is not None and "staticmethod" not in decs
    given = _bind_args(callee, call, skip)
    if given is None:
        return None
    body = _callee_body(callee)
    m = dict(given)
    if skip:
        m[callee.args.args[0].arg] = recv
    ret = copy.deepcopy(body[0].value)
    # an argument that is not a plain name / constant / attribute chain and is used more than once would be duplicated
    uses = {}
    for n in ast.walk(ret):
        if isinstance(n, ast.Name) and isinstance(n.ctx, ast.Load):
            uses[n.id] = uses.get(n.id, 0) + 1
    for p, e in m.items():
        if uses.get(p, 0) > 1 and not _pure(e):
            return None
    return _Subst(m).visit(ret)


def inline_stmts(callee, call, recv=None):
    """(statements, return expression | None) equal to executing `call`, or None"""
    decs = {ast.unparse(d) for d in callee.decorator_list}
    if decs - {"staticmethod", "classmethod"}:
        return None
    skip = recv is not None and "staticmethod" not in decs
    given = _bind_args(callee, call, skip)
    if given is None:
        return None
    k = next(_counter)
    ren = {}
    pre = []
    if skip:
        if not isinstance(recv, ast.Name):
            return None
        ren[callee.args.args[0].arg] = recv.id
    body = copy.deepcopy(_callee_body(callee))
    # a parameter that the callee only edits IN PLACE (p[i] = .., p.append(..)) is the caller's object under another name: it is
    # renamed to the argument, so that the edits are seen on the caller's variable; only a parameter the callee re-binds needs a
    # local of its own
    stored = {n.id for b in body for n in ast.walk(b) if isinstance(n, ast.Name) and isinstance(n.ctx, (ast.Store, ast.Del))}
    for p, e in given.items():
        if isinstance(e, ast.Name) and p not in stored:
            ren[p] = e.id
        else:
            fresh = f"_inl{k}_{p}"
            ren[p] = fresh
            pre.append(ast.Assign(targets=[ast.Name(id=fresh, ctx=ast.Store())], value=copy.deepcopy(e)))
    locals_ = {n.id for b in body for n in ast.walk(b) if isinstance(n, ast.Name) and isinstance(n.ctx, ast.Store)} - set(ren)
    for l in locals_:
        ren[l] = f"_inl{k}_{l}"
    ret = None
    if body and isinstance(body[-1], ast.Return):
        ret = body[-1].value
        body = body[:-1]
    body = [_Rename(ren).visit(b) for b in body]
    if ret is not None:
        ret = _Rename(ren).visit(ret)
    return pre + body, ret


def inline_stmt_calls(func, resolve, max_depth: int = 3):
    """resolve(call) -> (callee FunctionDef, receiver expr | None) | None.  Whole-statement calls are replaced by the callee's
    statements."""
    def value_of(st):
        if isinstance(st, ast.Expr):
            return st.value
        if isinstance(st, (ast.Assign, ast.AugAssign, ast.Return)):
            return st.value
        if isinstance(st, ast.AnnAssign):
            return st.value
        return None

    def expand(stmts, depth):
        out = []
        for st in stmts:
            for fld in ("body", "orelse", "finalbody"):
                b = getattr(st, fld, None)
                if isinstance(b, list) and b and isinstance(b[0], ast.stmt) and not isinstance(st, (ast.FunctionDef, ast.ClassDef, ast.AsyncFunctionDef)):
                    setattr(st, fld, expand(b, depth))
            if isinstance(st, ast.Try):
                for h in st.handlers:
                    h.body = expand(h.body, depth)
            c = value_of(st)
            if isinstance(c, ast.Call) and depth < max_depth:
                r = resolve(c)
                if r is not None and r[0] is not func:
                    callee, recv = r
                    kind = _simple_callee(callee)
                    if kind == "expr":
                        e = inline_expr(callee, c, recv)
                        if e is not None:
                            st.value = e
                            ast.fix_missing_locations(st)
                            out.extend(expand([st], depth + 1))
                            continue
                    elif kind == "stmts":
                        res = inline_stmts(callee, c, recv)
                        if res is not None:
                            body, ret = res
                            new = list(body)
                            if isinstance(st, ast.Expr):
                                pass          # a value returned and ignored
                            elif ret is None:
                                st.value = ast.Constant(value=None)
                                new.append(st)
                            else:
                                st.value = ret
                                new.append(st)
                            for b in new:
                                ast.copy_location(b, st) if not hasattr(b, "lineno") else None
                                ast.fix_missing_locations(b)
                            out.extend(expand(new, depth + 1))
                            continue
            # a straight-line helper called INSIDE the statement's expression (`return f(g(a))`, `x = "(" + g(a) + ")"`): its
            # statements are hoisted in front of the statement and the call is replaced by the returned expression, provided
            # nothing with a possible effect is evaluated before the call in that expression
            v = value_of(st)
            if v is not None and depth < max_depth and not isinstance(st, ast.AugAssign):
                hit = _first_nested_call(v, lambda c_: (lambda r_: r_ is not None and r_[0] is not func and _simple_callee(r_[0]) == "stmts")(resolve(c_)))
                if hit is not None:
                    callee, recv = resolve(hit)
                    res = inline_stmts(callee, hit, recv)
                    if res is not None and res[1] is not None:
                        body, ret = res
                        st.value = _ReplaceNode(hit, ret).visit(v)
                        new = list(body) + [st]
                        for b in new:
                            ast.copy_location(b, st) if not hasattr(b, "lineno") else None
                            ast.fix_missing_locations(b)
                        out.extend(expand(new, depth + 1))
                        continue
            out.append(st)
        return out
    func.body = expand(func.body, 0)
    return func


class _ReplaceNode(ast.NodeTransformer):
    def __init__(self, old, new):
        self.old, self.new = old, new

    def visit(self, n):
        if n is self.old:
            return self.new
        return self.generic_visit(n)


def _first_nested_call(expr, wanted):
    """the first call (in evaluation order) inside `expr` for which wanted(call) holds, reached only through operands that are
    always evaluated (call arguments, operators, attribute/subscript bases, displays, f-string fields) and with nothing but
    pure sub-expressions evaluated before it; None otherwise"""
    def rec(n):
        """-> (hit | None, pure_so_far)"""
        if isinstance(n, ast.Call) and wanted(n) and n is not expr:
            if all(_pure(a) for a in n.args) and all(_pure(k.value) for k in n.keywords) and _pure(n.func):
                return n, True
            return None, False
        if isinstance(n, (ast.Call, ast.BinOp, ast.UnaryOp, ast.Attribute, ast.Subscript, ast.Tuple, ast.List, ast.Set, ast.JoinedStr, ast.FormattedValue,
                          ast.Starred, ast.keyword, ast.Compare, ast.Slice, ast.Index if hasattr(ast, "Index") else ast.Slice)):
            for ch in ast.iter_child_nodes(n):
                if isinstance(ch, (ast.expr_context, ast.operator, ast.unaryop, ast.cmpop)):
                    continue
                h, pure = rec(ch)
                if h is not None:
                    return h, True
                if not pure:
                    return None, False
            # the node itself: a call evaluated after its operands has an effect for whatever follows
            return None, not isinstance(n, ast.Call)
        return None, _pure(n)
    return rec(expr)[0]


class _ExprInliner(ast.NodeTransformer):
    """calls to 'expr' helpers anywhere inside expressions"""

    def __init__(self, resolve, owner, depth=0):
        self.resolve, self.owner, self.depth = resolve, owner, depth
        self.changed = False

    def visit_Call(self, n):
        self.generic_visit(n)
        r = self.resolve(n)
        if r is not None and r[0] is not self.owner and _simple_callee(r[0]) == "expr" and self.depth < 3:
            e = inline_expr(r[0], n, r[1])
            if e is not None:
                self.changed = True
                e = _ExprInliner(self.resolve, self.owner, self.depth + 1).visit(e)
                return ast.copy_location(e, n)
        return n

    def visit_FunctionDef(self, n):
        return n if n is not self.owner else self.generic_visit(n)

    visit_Lambda = lambda self, n: n


def inline_local_defs(func):
    """nested defs / lambdas bound to a local and used only by direct calls in the same function"""
    defs = {}

    def collect(stmts):
        for st in stmts:
            if isinstance(st, ast.FunctionDef) and not st.decorator_list:
                defs.setdefault(st.name, []).append(st)
            elif isinstance(st, ast.Assign) and len(st.targets) == 1 and isinstance(st.targets[0], ast.Name) and isinstance(st.value, ast.Lambda):
                lam = st.value
                f = ast.FunctionDef(name=st.targets[0].id, args=lam.args, body=[ast.Return(value=lam.body)], decorator_list=[], returns=None, type_comment=None)
                try:
                    f.type_params = []
                except Exception:
                    pass
                ast.copy_location(f, st)
                ast.fix_missing_locations(f)
                defs.setdefault(st.targets[0].id, []).append(f)
            if not isinstance(st, (ast.FunctionDef, ast.ClassDef, ast.AsyncFunctionDef)):
                for fld in ("body", "orelse", "finalbody"):
                    b = getattr(st, fld, None)
                    if isinstance(b, list) and b and isinstance(b[0], ast.stmt):
                        collect(b)
    collect(func.body)
    if not defs:
        return func
    # a name defined once, never re-bound otherwise, whose free variables are not re-bound after the definition (checked
    # coarsely: free variables of the helper that the enclosing function stores at most once)
    store_count = {}
    for n in ast.walk(func):
        if isinstance(n, ast.Name) and isinstance(n.ctx, ast.Store):
            store_count[n.id] = store_count.get(n.id, 0) + 1
    usable = {}
    for name, lst in defs.items():
        if len(lst) != 1:
            continue
        d = lst[0]
        is_lambda = not any(d is st for st in ast.walk(func))
        if store_count.get(name, 0) > (1 if is_lambda else 0):
            continue
        kind = _simple_callee(d)
        if kind is None:
            continue
        params = {a.arg for a in d.args.args + d.args.kwonlyargs}
        own = {n.id for n in ast.walk(d) if isinstance(n, ast.Name) and isinstance(n.ctx, ast.Store)}
        free = {n.id for s in d.body for n in ast.walk(s) if isinstance(n, ast.Name) and isinstance(n.ctx, ast.Load)} - params - own
        if any(store_count.get(v, 0) > 1 for v in free):
            continue
        # used other than by a direct call (passed as a value, returned): keep
        refs = [n for n in ast.walk(func) if isinstance(n, ast.Name) and n.id == name and isinstance(n.ctx, ast.Load)]
        calls = [n for n in ast.walk(func) if isinstance(n, ast.Call) and isinstance(n.func, ast.Name) and n.func.id == name]
        if len(refs) != len(calls):
            continue
        if any(isinstance(n, ast.Call) and isinstance(n.func, ast.Name) and n.func.id == name for n in ast.walk(d)):
            continue          # recursive
        usable[name] = d
    if not usable:
        return func

    def resolve(call):
        if isinstance(call.func, ast.Name) and call.func.id in usable:
            return usable[call.func.id], None
        return None
    inline_stmt_calls(func, resolve)
    inl = _ExprInliner(resolve, func)
    # expression position: every statement's expressions, but not inside the helpers themselves
    new_body = []
    for st in func.body:
        new_body.append(inl.visit(st))
    func.body = new_body
    # drop definitions that are no longer referenced
    still = {n.func.id for n in ast.walk(func) if isinstance(n, ast.Call) and isinstance(n.func, ast.Name) and n.func.id in usable}

    def prune(stmts):
        out = []
        for st in stmts:
            if isinstance(st, ast.FunctionDef) and st.name in usable and st.name not in still:
                continue
            if isinstance(st, ast.Assign) and len(st.targets) == 1 and isinstance(st.targets[0], ast.Name) and isinstance(st.value, ast.Lambda) \
                    and st.targets[0].id in usable and st.targets[0].id not in still:
                continue
            if not isinstance(st, (ast.FunctionDef, ast.ClassDef, ast.AsyncFunctionDef)):
                for fld in ("body", "orelse", "finalbody"):
                    b = getattr(st, fld, None)
                    if isinstance(b, list) and b and isinstance(b[0], ast.stmt):
                        nb = prune(b)
                        setattr(st, fld, nb if nb or fld != "body" else [ast.copy_location(ast.Pass(), st)])
            out.append(st)
        return out
    func.body = prune(func.body) or [ast.Pass()]
    ast.fix_missing_locations(func)
    return func


# ------------------------------------------------------------------------------------------ extracted helpers, whole function

def _helper_calls(node, resolve, owner):
    """calls inside `node` to helpers that inline_stmt_calls could expand (statement helpers: loops, several statements)"""
    out = []
    for n in ast.walk(node):
        if isinstance(n, ast.Call):
            r = resolve(n)
            if r is not None and r[0] is not owner and _simple_callee(r[0]) == "stmts":
                out.append(n)
    return out


def _unfold_comprehension(st, resolve, owner):
    """`X = [E for .. in .. if ..]` whose element calls a statement helper -> `X = []` + the loop nest appending E (the inverse of
    core._Canon's append-loop folding): the helper call becomes a statement that can be expanded in place"""
    if not (isinstance(st, ast.Assign) and len(st.targets) == 1 and isinstance(st.targets[0], ast.Name) and isinstance(st.value, ast.ListComp)):
        return None
    comp = st.value
    if not _helper_calls(comp.elt, resolve, owner) or any(g.is_async for g in comp.generators):
        return None
    x = st.targets[0].id
    if x in _loaded(comp):
        return None
    inner = ast.Expr(value=ast.Call(func=ast.Attribute(value=ast.Name(id=x, ctx=ast.Load()), attr="append", ctx=ast.Load()), args=[comp.elt], keywords=[]))
    body = [inner]
    for g in reversed(comp.generators):
        for c in reversed(g.ifs):
            body = [ast.If(test=c, body=body, orelse=[])]
        body = [ast.For(target=g.target, iter=g.iter, body=body, orelse=[], type_comment=None)]
    init = ast.Assign(targets=[ast.Name(id=x, ctx=ast.Store())], value=ast.List(elts=[], ctx=ast.Load()))
    out = [init] + body
    for b in out:
        ast.copy_location(b, st)
        ast.fix_missing_locations(b)
    return out


def _hoist_helper_arg(st, resolve, owner):
    """`X.append(h(a))` / `f(h(a))` / `x = g(h(a))` with h a statement helper -> `_t = h(a)` + the statement using `_t`; only when
    everything evaluated before the helper call is a plain name / constant (evaluation order is kept)"""
    if not isinstance(st, (ast.Expr, ast.Assign, ast.AugAssign, ast.Return)) or not isinstance(st.value, ast.Call):
        return None
    outer = st.value
    if resolve(outer) is not None and _simple_callee(resolve(outer)[0]) is not None:
        return None                       # the statement's own call is a helper: expanded as it is
    f = outer.func
    if not (isinstance(f, ast.Name) or (isinstance(f, ast.Attribute) and isinstance(f.value, ast.Name))):
        return None
    for i, a in enumerate(outer.args):
        if isinstance(a, ast.Call) and a in _helper_calls(a, resolve, owner)[:1]:
            if not all(_pure(p) for p in outer.args[:i]):
                return None
            t = f"_arg{next(_counter)}"
            pre = ast.Assign(targets=[ast.Name(id=t, ctx=ast.Store())], value=a)
            outer.args[i] = ast.Name(id=t, ctx=ast.Load())
            ast.copy_location(pre, st)
            ast.fix_missing_locations(pre)
            ast.fix_missing_locations(st)
            return [pre, st]
        if not _pure(a):
            return None
    return None


def expand_helpers(func, resolve):
    """A function with the helpers it was split into put back (in place; hand in a copy).  resolve(call) -> (callee FunctionDef,
    receiver expr | None) | None decides which calls are helpers (pymodel.Package.expanded: methods of the same class reached
    through self/cls, functions of the same module).  Statement helpers are expanded where a call is a whole statement, after
    comprehensions / call arguments that contain such a call were turned into statements; one-expression helpers are replaced
    wherever they are called.  Anything that cannot be expanded safely stays a call."""
    def prepare(stmts):
        out = []
        for st in stmts:
            for fld in ("body", "orelse", "finalbody"):
                b = getattr(st, fld, None)
                if isinstance(b, list) and b and isinstance(b[0], ast.stmt) and not isinstance(st, (ast.FunctionDef, ast.ClassDef, ast.AsyncFunctionDef)):
                    setattr(st, fld, prepare(b))
            un = _unfold_comprehension(st, resolve, func)
            if un is not None:
                out.extend(prepare(un))
                continue
            ho = _hoist_helper_arg(st, resolve, func)
            if ho is not None:
                out.extend(ho)
                continue
            out.append(st)
        return out
    func.body = prepare(func.body)
    inline_stmt_calls(func, resolve)
    func.body = [_ExprInliner(resolve, func).visit(st) for st in func.body]
    ast.fix_missing_locations(func)
    return func


class _CallLambda(ast.NodeTransformer):
    """`(lambda: e)()` -> e   (a parameterless lambda called on the spot, e.g. after a table of closures was unrolled)"""

    def visit_Call(self, n):
        self.generic_visit(n)
        f = n.func
        if isinstance(f, ast.Lambda) and not n.args and not n.keywords and not (f.args.args or f.args.posonlyargs or f.args.kwonlyargs or f.args.vararg or f.args.kwarg):
            return ast.copy_location(f.body, n)
        return n


def _drop_dead_tables(func):
    """`name = <literal tuple/list of pure elements>` whose name is never read (any more, after its loop was unrolled): the
    binding has no effect, and its elements (e.g. references to local helpers) would otherwise count as uses"""
    read = {n.id for n in ast.walk(func) if isinstance(n, ast.Name) and isinstance(n.ctx, (ast.Load, ast.Del))}
    if any(isinstance(n, ast.Name) and n.id in ("locals", "vars", "eval", "exec") for n in ast.walk(func)):
        return func

    def prune(stmts):
        out = []
        for st in stmts:
            if isinstance(st, ast.Assign) and len(st.targets) == 1 and isinstance(st.targets[0], ast.Name) and st.targets[0].id not in read:
                seq = _literal_seq(st.value)
                if seq is not None and all(_pure(e, lambdas=True) for e in seq.elts):
                    continue
            if not isinstance(st, (ast.FunctionDef, ast.ClassDef, ast.AsyncFunctionDef)):
                for fld in ("body", "orelse", "finalbody"):
                    b = getattr(st, fld, None)
                    if isinstance(b, list) and b and isinstance(b[0], ast.stmt):
                        nb = prune(b)
                        setattr(st, fld, nb if nb or fld != "body" else [ast.copy_location(ast.Pass(), st)])
            out.append(st)
        return out
    func.body = prune(func.body) or [ast.Pass()]
    return func


class _ConstGetattr(ast.NodeTransformer):
    """`getattr(x, "name")` (two arguments, literal identifier) is the attribute access `x.name`"""

    def visit_Call(self, n):
        self.generic_visit(n)
        if isinstance(n.func, ast.Name) and n.func.id == "getattr" and len(n.args) == 2 and not n.keywords \
                and isinstance(n.args[1], ast.Constant) and isinstance(n.args[1].value, str) and n.args[1].value.isidentifier():
            return ast.copy_location(ast.Attribute(value=n.args[0], attr=n.args[1].value, ctx=ast.Load()), n)
        return n


def const_getattr(node):
    return ast.fix_missing_locations(_ConstGetattr().visit(node))


# ----------------------------------------------------------------------------------------------------- closure dispatch

def specialise_dispatch(func):
    """Closure dispatch

        if c1:                          if c1:
            def f(..): return e1            S[f := f_1]      (f_1 = the first arm's f)
        elif c2:                 ->     elif c2:
            def f(..): return e2            S[f := f_2]
        else:                           else:
            raise ..                        raise ..
        S   (statements using f)

    is the if/elif chain of specialised statements it abbreviates: the statements up to the last use of `f` are moved into every arm
    that defines `f` (tail duplication -- arms that leave the block do not reach them anyway), each arm's `f` under a name of its own,
    which inline_local_defs then substitutes.  Applied only when every arm either leaves the block or consists of nothing but the
    definition of the one name, and that name is used nowhere else in the function."""
    def arms_of(st):
        out = []
        while True:
            out.append(st.body)
            if len(st.orelse) == 1 and isinstance(st.orelse[0], ast.If):
                st = st.orelse[0]
                continue
            out.append(st.orelse)          # [] when there is no else
            return out

    def leaves(body):
        return bool(body) and isinstance(body[-1], (ast.Raise, ast.Return))

    def only_def(body):
        body = [b for b in body if not isinstance(b, ast.Pass) and not (isinstance(b, ast.Expr) and isinstance(b.value, ast.Constant))]
        if len(body) == 1 and isinstance(body[0], ast.FunctionDef) and not body[0].decorator_list:
            return body[0]
        return None

    def uses(node, name):
        return [n for n in ast.walk(node) if isinstance(n, ast.Name) and n.id == name]

    def block(stmts):
        i = 0
        while i < len(stmts):
            st = stmts[i]
            if isinstance(st, ast.If):
                arms = arms_of(st)
                defs = [only_def(a) for a in arms]
                names = {d.name for d in defs if d is not None}
                if len(names) == 1 and sum(d is not None for d in defs) >= 2 and all(d is not None or leaves(a) for d, a in zip(defs, arms)):
                    (name,) = names
                    last = max((j for j in range(i + 1, len(stmts)) if uses(stmts[j], name)), default=None)
                    inside = sum(len(uses(stmts[j], name)) for j in range(i + 1, (last or i) + 1))
                    everywhere = len(uses(func, name))
                    stores = [n for n in uses(func, name) if isinstance(n.ctx, (ast.Store, ast.Del))]
                    redefs = [n for n in ast.walk(func) if isinstance(n, (ast.FunctionDef, ast.ClassDef)) and n.name == name and not any(n is d for d in defs)]
                    if last is not None and last - i <= 6 and inside == everywhere and not stores and not redefs \
                            and not any(isinstance(n, (ast.FunctionDef, ast.ClassDef, ast.Lambda)) for j in range(i + 1, last + 1) for n in ast.walk(stmts[j])):
                        tail = stmts[i + 1:last + 1]
                        for d, a in zip(defs, arms):
                            if d is None:
                                continue
                            new = f"{name}__arm{next(_counter)}"
                            d.name = new
                            a.extend(_Rename({name: new}).visit(copy.deepcopy(t)) for t in tail)
                        del stmts[i + 1:last + 1]
            for fld in ("body", "orelse", "finalbody"):
                b = getattr(st, fld, None)
                if isinstance(b, list) and b and isinstance(b[0], ast.stmt) and not isinstance(st, (ast.FunctionDef, ast.ClassDef, ast.AsyncFunctionDef)):
                    block(b)
            if isinstance(st, ast.Try):
                for h in st.handlers:
                    block(h.body)
            i += 1
    block(func.body)
    return func


# ------------------------------------------------------------------------------------------- index loops -> enumerate

class _IndexLoops(ast.NodeTransformer):
    """`for i in range(len(X)): .. X[i] ..`  ->  `for i, x in enumerate(X): .. x ..`  when X is a plain name / attribute chain that the
    body neither re-binds nor mutates and `i` is not re-bound: the loop visits the same elements in the same order.  A leading
    `x = X[i]` supplies the element's name."""

    def visit_For(self, n):
        self.generic_visit(n)
        it = n.iter
        if n.orelse or not isinstance(n.target, ast.Name) or not (isinstance(it, ast.Call) and isinstance(it.func, ast.Name) and it.func.id == "range"
                                                                  and len(it.args) == 1 and not it.keywords):
            return n
        ln = it.args[0]
        if not (isinstance(ln, ast.Call) and isinstance(ln.func, ast.Name) and ln.func.id == "len" and len(ln.args) == 1 and not ln.keywords):
            return n
        X = ln.args[0]
        b = X
        while isinstance(b, ast.Attribute):
            b = b.value
        if not isinstance(b, ast.Name) or not _pure(X):
            return n
        i = n.target.id
        xs = ast.unparse(X)
        stored = _stored(n.body)
        if i in stored or b.id in stored:
            return n

        def is_elem(e):
            return isinstance(e, ast.Subscript) and isinstance(e.ctx, ast.Load) and ast.unparse(e.value) == xs \
                and isinstance(e.slice, ast.Name) and e.slice.id == i
        body = list(n.body)
        first = body[0] if body else None
        if isinstance(first, ast.Assign) and len(first.targets) == 1 and isinstance(first.targets[0], ast.Name) and is_elem(first.value) \
                and first.targets[0].id not in _stored(body[1:]) and first.targets[0].id != i:
            name = first.targets[0].id
            body = body[1:] or [ast.copy_location(ast.Pass(), first)]
        elif any(is_elem(e) for st in body for e in ast.walk(st)):
            name = f"_elem{next(_counter)}"
        else:
            return n

        class R(ast.NodeTransformer):
            def visit_Subscript(self, e):
                if is_elem(e):
                    return ast.copy_location(ast.Name(id=name, ctx=ast.Load()), e)
                return self.generic_visit(e)
        n.body = [R().visit(st) for st in body]
        n.target = ast.copy_location(ast.Tuple(elts=[ast.Name(id=i, ctx=ast.Store()), ast.Name(id=name, ctx=ast.Store())], ctx=ast.Store()), n.target)
        n.iter = ast.copy_location(ast.Call(func=ast.Name(id="enumerate", ctx=ast.Load()), args=[X], keywords=[]), it)
        ast.fix_missing_locations(n)
        return n

    def visit_FunctionDef(self, n):
        return n            # nested functions are normalised on their own

    visit_Lambda = visit_AsyncFunctionDef = visit_ClassDef = lambda self, n: n


def index_loops_to_enumerate(func):
    tr = _IndexLoops()
    func.body = [tr.visit(st) for st in func.body]
    return func


# --------------------------------------------------------------------------------------------- loops over concatenated iterables

def _chain_parts(e):
    """[A, B, ..] when e is itertools.chain(A, B, ..), possibly wrapped in list() / tuple() / iter(); else None"""
    while isinstance(e, ast.Call) and isinstance(e.func, ast.Name) and e.func.id in ("list", "tuple", "iter") and len(e.args) == 1 and not e.keywords:
        e = e.args[0]
    if isinstance(e, ast.Call) and ast.unparse(e.func) in ("chain", "itertools.chain") and len(e.args) >= 2 and not e.keywords \
            and not any(isinstance(a, ast.Starred) for a in e.args):
        return list(e.args)
    return None


def _repeat_const(e):
    return e.args[0] if isinstance(e, ast.Call) and ast.unparse(e.func) in ("repeat", "itertools.repeat") and len(e.args) == 1 and not e.keywords \
        and isinstance(e.args[0], ast.Constant) else None


def split_chain_loops(func):
    """Loop fission over concatenated iterables:
        for T in chain(A, B): S                 ->   for T in A: S;  for T in B: S         (S has no break; no else clause)
        for c, x in zip(repeat(K), X): S        ->   for x in X: S[c := K]                 (K a constant, c not re-bound in S)
    A local bound once to [list(]chain(..)[)] and read only as the iterable of for-loops (once, unless it is a list / tuple) stands for
    that expression.  `for sign, i in chain(zip(repeat(" - "), R), zip(repeat(" + "), P))` is then the loss loop followed by the gain loop."""
    if not any(isinstance(n, ast.Call) and ast.unparse(n.func) in ("chain", "itertools.chain", "repeat", "itertools.repeat") for n in ast.walk(func)):
        return func
    stores, loads = {}, {}
    for n in ast.walk(func):
        if isinstance(n, ast.Name):
            d = stores if isinstance(n.ctx, (ast.Store, ast.Del)) else loads
            d[n.id] = d.get(n.id, 0) + 1
    bound = {}

    def bindings(stmts):
        """chain-valued locals of this block whose every read is the iterable of a for-loop later in the SAME block, with nothing in
        between re-binding the local or a name its value mentions"""
        for i, n in enumerate(stmts):
            if isinstance(n, ast.Assign) and len(n.targets) == 1 and isinstance(n.targets[0], ast.Name) and stores.get(n.targets[0].id) == 1 and _chain_parts(n.value) is not None:
                name = n.targets[0].id
                uses = [j for j in range(i + 1, len(stmts)) if isinstance(stmts[j], ast.For) and isinstance(stmts[j].iter, ast.Name) and stmts[j].iter.id == name]
                reusable = isinstance(n.value, ast.Call) and isinstance(n.value.func, ast.Name) and n.value.func.id in ("list", "tuple")
                free = _loaded(n.value) | {name}
                ok_parts = all(_pure(a) or _repeat_const(a) is not None or (isinstance(a, ast.Call) and isinstance(a.func, ast.Name) and a.func.id == "zip" and not a.keywords
                               and all(_pure(z) or _repeat_const(z) is not None for z in a.args)) for a in _chain_parts(n.value))
                if uses and len(uses) == loads.get(name, 0) and (reusable or len(uses) == 1) and ok_parts and not (free & _stored(stmts[i + 1:uses[-1] + 1])):
                    bound[name] = n

    def one(loop):
        """the loops `loop` stands for"""
        it = bound[loop.iter.id].value if isinstance(loop.iter, ast.Name) and loop.iter.id in bound else loop.iter
        parts = _chain_parts(it)
        if parts is not None and not loop.orelse and not any(isinstance(x, ast.Break) for st in loop.body for x in ast.walk(st)):
            out = []
            for p_ in parts:
                new = ast.For(target=copy.deepcopy(loop.target), iter=copy.deepcopy(p_), body=[copy.deepcopy(st) for st in loop.body], orelse=[], type_comment=None)
                out.extend(one(ast.copy_location(new, loop)))
            return out
        if isinstance(it, ast.Call) and isinstance(it.func, ast.Name) and it.func.id == "zip" and not it.keywords and isinstance(loop.target, (ast.Tuple, ast.List)) \
                and len(loop.target.elts) == len(it.args) and not any(isinstance(a, ast.Starred) for a in it.args):
            consts = {i: _repeat_const(a) for i, a in enumerate(it.args)}
            fixed = {i: k for i, k in consts.items() if k is not None and isinstance(loop.target.elts[i], ast.Name)}
            names = {loop.target.elts[i].id for i in fixed}
            if fixed and len(fixed) < len(it.args) and not (names & _rebound(loop.body)):
                keep = [i for i in range(len(it.args)) if i not in fixed]
                m = {loop.target.elts[i].id: k for i, k in fixed.items()}
                loop.body = [_Subst(dict(m)).visit(st) for st in loop.body]
                if len(keep) == 1:
                    loop.target, loop.iter = loop.target.elts[keep[0]], it.args[keep[0]]
                else:
                    loop.target = ast.Tuple(elts=[loop.target.elts[i] for i in keep], ctx=ast.Store())
                    loop.iter = ast.Call(func=it.func, args=[it.args[i] for i in keep], keywords=[])
                ast.fix_missing_locations(loop)
        return [loop]

    def block(stmts):
        out = []
        bindings(stmts)
        for st in stmts:
            if isinstance(st, (ast.FunctionDef, ast.ClassDef, ast.AsyncFunctionDef)):
                out.append(st)
                continue
            for fld in ("body", "orelse", "finalbody"):
                b = getattr(st, fld, None)
                if isinstance(b, list) and b and isinstance(b[0], ast.stmt):
                    setattr(st, fld, block(b))
            if isinstance(st, ast.Try):
                for h in st.handlers:
                    h.body = block(h.body)
            if any(st is n for n in bound.values()):
                continue                       # the binding is replaced by its uses
            out.extend(one(st) if isinstance(st, ast.For) else [st])
        return out
    func.body = block(func.body) or [ast.Pass()]
    return ast.fix_missing_locations(func)


def normalize_function(func, tables: dict | None = None):
    """the local normalisations (no knowledge of other functions needed); `tables`: module-level literal tables (module_tables)"""
    try:
        split_chain_loops(func)
        specialise_dispatch(func)
        inline_local_defs(func)
        index_loops_to_enumerate(func)
        before = len(list(ast.walk(func)))
        unroll_static_loops(func, tables)
        const_getattr(func)          # after unrolling: the name may come from a row of the unrolled table
        if len(list(ast.walk(func))) != before:
            # unrolling a table of closures / helper references turns them into direct calls: a second round inlines those
            _drop_dead_tables(func)
            func.body = [_CallLambda().visit(st) for st in func.body]
            inline_local_defs(func)
            ast.fix_missing_locations(func)
    except RecursionError:
        pass
    return func


# ----------------------------------------------------------------------------------------------- static folding (opt-in pass)
#
# fold_static(func) is NOT part of normalize_function: a rule asks for it (pymodel.Package.folded) when it decides a function by
# the VALUES its statements compute rather than by their arrangement.  It is partial evaluation of the literal part of a function:
#   * sequences: zip / enumerate / reversed / list / tuple / range / itertools.accumulate / slices / `+` / comprehensions and
#     generator expressions over literal tuples and lists (and locals bound to them) are the literal they evaluate to, so that a
#     loop over them is unrolled like a loop over a literal written in place (nested tuple targets included);
#   * scalars: integer arithmetic on constants, <literal>[<constant>], <dict literal>[<constant>] / .get(<constant>), len / sum of
#     a literal, `<constant> == <constant>`, `<constant> in <literal of constants>`, and the `if` / conditional expressions whose
#     test became a constant;
#   * table dispatch: `if key in <literal dict / tuple of constants>: ... TABLE[key] ...` is the if/elif chain over the keys;
#   * functools.reduce(f, <literal>, init) is f(f(init, e1), e2)..; a lambda called on the spot is its body;
#   * getattr(x, "name") / setattr(x, "name", v) with a literal identifier are `x.name` / `x.name = v`.
# Nothing is executed: only Python's own semantics of these pure builtins on literals is used.

_SEQ_MAX = 64


def _num(e) -> bool:
    return isinstance(e, ast.Constant) and isinstance(e.value, (int, float)) and not isinstance(e.value, bool)


def _int(e) -> bool:
    return isinstance(e, ast.Constant) and isinstance(e.value, int) and not isinstance(e.value, bool)


def _plain_seq(e):
    return isinstance(e, (ast.Tuple, ast.List)) and len(e.elts) <= _SEQ_MAX and not any(isinstance(x, ast.Starred) for x in e.elts)


def _const_keys(e):
    """the constants a literal container holds (dict: its keys), or None when an element is not a constant"""
    if isinstance(e, ast.Dict):
        ks = e.keys
    elif isinstance(e, (ast.Tuple, ast.List, ast.Set)):
        ks = e.elts
    else:
        return None
    if any(not isinstance(k, ast.Constant) for k in ks):
        return None
    return [k.value for k in ks]


def _same_const(a, b) -> bool:
    return type(a) is type(b) and a == b


def _mk_tuple(elts, like=None):
    t = ast.Tuple(elts=list(elts), ctx=ast.Load())
    if like is not None and hasattr(like, "lineno"):
        ast.copy_location(t, like)
    return ast.fix_missing_locations(t)


def _slice_bounds(s):
    """(lo, hi, step) of a slice with constant / absent bounds, or None"""
    if not isinstance(s, ast.Slice):
        return None
    out = []
    for b in (s.lower, s.upper, s.step):
        if b is None or (isinstance(b, ast.Constant) and b.value is None):
            out.append(None)
        elif _int(b):
            out.append(b.value)
        elif isinstance(b, ast.UnaryOp) and isinstance(b.op, ast.USub) and _int(b.operand):
            out.append(-b.operand.value)
        else:
            return None
    return tuple(out)


def _static_seq(e, lits, depth: int = 0):
    """the literal tuple (of element EXPRESSIONS) that the sequence expression `e` evaluates to, or None.  `lits`: locals known to be
    bound to such literals.  One-shot iterators (zip, accumulate, generators) bound to a local are treated as the sequence they
    yield: code that walks such a local twice is not what this pass is for (the second walk would be empty)."""
    if depth > 8:
        return None
    rec = lambda x: _static_seq(x, lits, depth + 1)
    if _plain_seq(e):
        return e
    if isinstance(e, ast.Name):
        return lits.get(e.id)
    if isinstance(e, ast.Dict) and _const_keys(e) is not None:
        return _mk_tuple([copy.deepcopy(k) for k in e.keys], e)
    if isinstance(e, ast.Subscript):
        seq, b = rec(e.value), _slice_bounds(e.slice)
        if seq is not None and b is not None and b[2] in (None, 1, -1):
            return _mk_tuple(seq.elts[slice(*b)], e)
        return None
    if isinstance(e, ast.BinOp) and isinstance(e.op, ast.Add):
        a, b = rec(e.left), rec(e.right)
        if a is not None and b is not None and type(a) is type(b) and len(a.elts) + len(b.elts) <= _SEQ_MAX:
            return _mk_tuple(list(a.elts) + list(b.elts), e)
        return None
    if isinstance(e, (ast.ListComp, ast.GeneratorExp)) and len(e.generators) == 1 and not e.generators[0].is_async:
        g = e.generators[0]
        seq = rec(g.iter)
        if seq is None:
            return None
        out = []
        for el in seq.elts:
            m = _destructure(g.target, el)
            if m is None or not all(_pure(v, lambdas=True) for v in m.values()):
                return None
            keep = True
            for c in g.ifs:
                t = _fold_expr(_Subst(dict(m)).visit(copy.deepcopy(c)))
                if not isinstance(t, ast.Constant):
                    return None
                if not t.value:
                    keep = False
                    break
            if keep:
                out.append(_fold_expr(_Subst(dict(m)).visit(copy.deepcopy(e.elt))))
        return _mk_tuple(out, e)
    if not isinstance(e, ast.Call) or any(isinstance(a, ast.Starred) for a in e.args) or any(k.arg is None for k in e.keywords):
        return None
    f = e.func
    kws = {k.arg: k.value for k in e.keywords}
    if isinstance(f, ast.Attribute) and f.attr in ("items", "keys", "values") and isinstance(f.value, ast.Dict) and not e.args and not kws \
            and _const_keys(f.value) is not None and len(f.value.keys) <= _SEQ_MAX:
        d = f.value
        if f.attr == "keys":
            return _mk_tuple([copy.deepcopy(k) for k in d.keys], e)
        if f.attr == "values":
            return _mk_tuple([copy.deepcopy(v) for v in d.values], e)
        return _mk_tuple([_mk_tuple([copy.deepcopy(k), copy.deepcopy(v)], e) for k, v in zip(d.keys, d.values)], e)
    name = ast.unparse(f)
    if name.startswith("itertools."):
        name = name[len("itertools."):]
    if name in lits:
        return None                     # the builtin's name is a local here
    if name in ("list", "tuple", "iter") and len(e.args) == 1 and not kws:
        return rec(e.args[0])
    if name == "reversed" and len(e.args) == 1 and not kws:
        seq = rec(e.args[0])
        return _mk_tuple(reversed(seq.elts), e) if seq is not None else None
    if name == "zip" and e.args and (not kws or (set(kws) == {"strict"} and isinstance(kws["strict"], ast.Constant))):
        seqs = [rec(a) for a in e.args]
        if any(s is None for s in seqs):
            return None
        n = min(len(s.elts) for s in seqs)
        return _mk_tuple([_mk_tuple([copy.deepcopy(s.elts[i]) for s in seqs], e) for i in range(n)], e)
    if name == "enumerate" and 1 <= len(e.args) <= 2 and set(kws) <= {"start"}:
        seq = rec(e.args[0])
        start = e.args[1] if len(e.args) == 2 else kws.get("start", ast.Constant(value=0))
        if seq is None or not _int(start):
            return None
        return _mk_tuple([_mk_tuple([ast.Constant(value=start.value + i), copy.deepcopy(x)], e) for i, x in enumerate(seq.elts)], e)
    if name == "accumulate" and len(e.args) == 1 and set(kws) <= {"initial"}:
        seq = rec(e.args[0])
        init = kws.get("initial")
        if seq is None or not all(_num(x) for x in seq.elts) or (init is not None and not (_num(init) or (isinstance(init, ast.Constant) and init.value is None))):
            return None
        vals = [x.value for x in seq.elts]
        if init is not None and init.value is not None:
            vals = [init.value] + vals
        run, tot = [], None
        for v in vals:
            tot = v if tot is None else tot + v
            run.append(tot)
        return _mk_tuple([ast.Constant(value=v) for v in run], e)
    if name == "range" and 1 <= len(e.args) <= 3 and not kws and all(_int(a) for a in e.args):
        r = range(*[a.value for a in e.args])
        return _mk_tuple([ast.Constant(value=v) for v in r], e) if len(r) <= _SEQ_MAX else None
    return None


class _Fold(ast.NodeTransformer):
    """scalar folding of the literal part of an expression (see fold_static)"""

    def visit_BinOp(self, n):
        self.generic_visit(n)
        l, r = n.left, n.right
        if _int(l) and _int(r) and isinstance(n.op, (ast.Add, ast.Sub, ast.Mult)):
            v = l.value + r.value if isinstance(n.op, ast.Add) else l.value - r.value if isinstance(n.op, ast.Sub) else l.value * r.value
            return ast.copy_location(ast.Constant(value=v), n)
        if _int(l) and _int(r) and isinstance(n.op, ast.FloorDiv) and r.value > 0 and l.value >= 0:
            return ast.copy_location(ast.Constant(value=l.value // r.value), n)
        return n

    def visit_UnaryOp(self, n):
        self.generic_visit(n)
        if isinstance(n.op, ast.Not) and isinstance(n.operand, ast.Constant):
            return ast.copy_location(ast.Constant(value=not n.operand.value), n)
        return n

    def visit_Subscript(self, n):
        self.generic_visit(n)
        if not isinstance(n.ctx, ast.Load):
            return n
        v, s = n.value, n.slice
        # x[slice(a, b)] is x[a:b]
        if isinstance(s, ast.Call) and isinstance(s.func, ast.Name) and s.func.id == "slice" and 1 <= len(s.args) <= 3 and not s.keywords \
                and all(isinstance(a, ast.Constant) and (a.value is None or _int(a)) for a in s.args):
            a_ = [None if a.value is None else a for a in s.args]
            lo, hi, st = (None, a_[0], None) if len(a_) == 1 else (a_[0], a_[1], a_[2] if len(a_) == 3 else None)
            n.slice = s = ast.copy_location(ast.Slice(lower=lo, upper=hi, step=st), s)
        if isinstance(v, ast.Dict) and isinstance(s, ast.Constant) and _const_keys(v) is not None and all(_pure(x, lambdas=True) for x in v.values):
            hit = [val for k, val in zip(v.keys, v.values) if _same_const(k.value, s.value)]
            if hit:
                return ast.copy_location(copy.deepcopy(hit[-1]), n)
        if _plain_seq(v) and all(_pure(x, lambdas=True) for x in v.elts):
            if _int(s) and -len(v.elts) <= s.value < len(v.elts):
                return ast.copy_location(copy.deepcopy(v.elts[s.value]), n)
            b = _slice_bounds(s)
            if b is not None and b[2] in (None, 1):
                new = type(v)(elts=[copy.deepcopy(x) for x in v.elts[slice(*b)]], ctx=ast.Load())
                return ast.copy_location(new, n)
        return n

    def visit_Compare(self, n):
        self.generic_visit(n)
        if len(n.ops) != 1:
            return n
        l, r, op = n.left, n.comparators[0], n.ops[0]
        if isinstance(l, ast.Constant) and isinstance(r, ast.Constant) and isinstance(op, (ast.Eq, ast.NotEq)) \
                and (type(l.value) is type(r.value) or isinstance(l.value, str) != isinstance(r.value, str)):
            eq = _same_const(l.value, r.value)
            return ast.copy_location(ast.Constant(value=eq if isinstance(op, ast.Eq) else not eq), n)
        if isinstance(l, ast.Constant) and isinstance(op, (ast.In, ast.NotIn)):
            ks = _const_keys(r)
            if ks is not None and (isinstance(l.value, str) or l.value is None or all(type(k) is type(l.value) for k in ks)):
                inside = any(_same_const(k, l.value) for k in ks)
                return ast.copy_location(ast.Constant(value=inside if isinstance(op, ast.In) else not inside), n)
        return n

    def visit_BoolOp(self, n):
        self.generic_visit(n)
        is_and = isinstance(n.op, ast.And)
        vals = []
        for i, v in enumerate(n.values):
            if isinstance(v, ast.Constant) and bool(v.value) == is_and and i < len(n.values) - 1:
                continue            # `True and x` is x;  `False or x` is x
            vals.append(v)
            if isinstance(v, ast.Constant) and bool(v.value) != is_and:
                break               # `x and False and y` stops at False
        # a leading decisive constant decides the whole expression
        if isinstance(vals[0], ast.Constant) and bool(vals[0].value) != is_and:
            return ast.copy_location(vals[0], n)
        if len(vals) == 1:
            return vals[0]
        n.values = vals
        return n

    def visit_IfExp(self, n):
        self.generic_visit(n)
        if isinstance(n.test, ast.Constant):
            return n.body if n.test.value else n.orelse
        return n

    def visit_Call(self, n):
        self.generic_visit(n)
        f = n.func
        if any(isinstance(a, ast.Starred) for a in n.args) or any(k.arg is None for k in n.keywords):
            return n
        name = ast.unparse(f) if isinstance(f, (ast.Name, ast.Attribute)) else ""
        if name == "len" and len(n.args) == 1 and not n.keywords and (_plain_seq(n.args[0]) or (isinstance(n.args[0], ast.Dict) and None not in n.args[0].keys)):
            a = n.args[0]
            return ast.copy_location(ast.Constant(value=len(a.keys if isinstance(a, ast.Dict) else a.elts)), n)
        if name == "len" and len(n.args) == 1 and not n.keywords and isinstance(n.args[0], ast.Constant) and isinstance(n.args[0].value, (str, bytes)):
            return ast.copy_location(ast.Constant(value=len(n.args[0].value)), n)
        if name == "sum" and len(n.args) == 1 and not n.keywords and _plain_seq(n.args[0]) and all(_int(x) for x in n.args[0].elts):
            return ast.copy_location(ast.Constant(value=sum(x.value for x in n.args[0].elts)), n)
        if name in ("reduce", "functools.reduce") and len(n.args) in (2, 3) and not n.keywords and _plain_seq(n.args[1]) \
                and all(_pure(x) for x in n.args[1].elts) and _pure(n.args[0], lambdas=True):
            elts = list(n.args[1].elts)
            acc = n.args[2] if len(n.args) == 3 else (elts.pop(0) if elts else None)
            if acc is not None:
                for el in elts:
                    acc = self.visit_Call(ast.copy_location(ast.Call(func=copy.deepcopy(n.args[0]), args=[acc, copy.deepcopy(el)], keywords=[]), n))
                return ast.fix_missing_locations(acc)
        if isinstance(f, ast.Lambda) and not n.keywords:
            a = f.args
            params = [p.arg for p in a.args]
            if not (a.posonlyargs or a.kwonlyargs or a.vararg or a.kwarg or a.defaults) and len(params) == len(n.args) \
                    and not any(isinstance(x, (ast.Lambda, ast.ListComp, ast.SetComp, ast.DictComp, ast.GeneratorExp)) for x in ast.walk(f.body)):
                uses = {p: sum(1 for x in ast.walk(f.body) if isinstance(x, ast.Name) and x.id == p) for p in params}
                if all(_pure(arg, lambdas=True) or uses[p] == 1 for p, arg in zip(params, n.args)):
                    return ast.copy_location(_Subst(dict(zip(params, n.args))).visit(copy.deepcopy(f.body)), n)
        if name == "getattr" and len(n.args) == 2 and not n.keywords and isinstance(n.args[1], ast.Constant) and isinstance(n.args[1].value, str) \
                and n.args[1].value.isidentifier():
            return ast.copy_location(ast.Attribute(value=n.args[0], attr=n.args[1].value, ctx=ast.Load()), n)
        if isinstance(f, ast.Attribute) and f.attr == "get" and isinstance(f.value, ast.Dict) and 1 <= len(n.args) <= 2 and not n.keywords \
                and isinstance(n.args[0], ast.Constant) and _const_keys(f.value) is not None and all(_pure(x, lambdas=True) for x in f.value.values):
            hit = [val for k, val in zip(f.value.keys, f.value.values) if _same_const(k.value, n.args[0].value)]
            if hit:
                return ast.copy_location(copy.deepcopy(hit[-1]), n)
            if len(n.args) == 1 or _pure(n.args[1], lambdas=True):
                return ast.copy_location(n.args[1] if len(n.args) == 2 else ast.Constant(value=None), n)
        return n

    def visit_Expr(self, n):
        self.generic_visit(n)
        c = n.value
        if isinstance(c, ast.Call) and isinstance(c.func, ast.Name) and c.func.id == "setattr" and len(c.args) == 3 and not c.keywords \
                and isinstance(c.args[1], ast.Constant) and isinstance(c.args[1].value, str) and c.args[1].value.isidentifier():
            new = ast.Assign(targets=[ast.Attribute(value=c.args[0], attr=c.args[1].value, ctx=ast.Store())], value=c.args[2])
            return ast.fix_missing_locations(ast.copy_location(new, n))
        return n


def _fold_expr(e):
    return ast.fix_missing_locations(_Fold().visit(e))


def _prune_const_ifs(stmts):
    """`if <constant>:` is the arm it selects"""
    out = []
    for st in stmts:
        if not isinstance(st, (ast.FunctionDef, ast.ClassDef, ast.AsyncFunctionDef)):
            for fld in ("body", "orelse", "finalbody"):
                b = getattr(st, fld, None)
                if isinstance(b, list) and b and isinstance(b[0], ast.stmt):
                    nb = _prune_const_ifs(b)
                    setattr(st, fld, nb if nb or fld != "body" else [ast.copy_location(ast.Pass(), st)])
            if isinstance(st, ast.Try):
                for h in st.handlers:
                    h.body = _prune_const_ifs(h.body) or [ast.copy_location(ast.Pass(), st)]
        if isinstance(st, ast.If) and isinstance(st.test, ast.Constant):
            out.extend(st.body if st.test.value else st.orelse)
            continue
        out.append(st)
    return out


class _TableDispatch(ast.NodeTransformer):
    """`if key in <literal dict / tuple / list / set of constants> [and c]: B` whose body (or c) looks something up BY key --
    `<dict literal>[key]`, getattr / setattr with a name computed from key -- is the chain `if key == k1 [and c]: B[key := k1]
    elif key == k2 ..: B[key := k2] .. else: <the original else>`: inside each arm key IS that constant.  key is a plain name that
    the body does not re-bind."""

    @staticmethod
    def _keyed(nodes, name) -> bool:
        for st in nodes:
            for x in ast.walk(st):
                if isinstance(x, ast.Subscript) and isinstance(x.value, ast.Dict) and isinstance(x.slice, ast.Name) and x.slice.id == name:
                    return True
                if isinstance(x, ast.Call) and isinstance(x.func, ast.Name) and x.func.id in ("getattr", "setattr") and len(x.args) >= 2 \
                        and any(isinstance(y, ast.Name) and y.id == name for y in ast.walk(x.args[1])):
                    return True
        return False

    def visit_If(self, n):
        self.generic_visit(n)
        first, rest = n.test, []
        if isinstance(first, ast.BoolOp) and isinstance(first.op, ast.And):
            first, rest = first.values[0], first.values[1:]
        if not (isinstance(first, ast.Compare) and len(first.ops) == 1 and isinstance(first.ops[0], ast.In) and isinstance(first.left, ast.Name)):
            return n
        x = first.left.id
        keys = _const_keys(first.comparators[0])
        if not keys or len(keys) > 12 or len(set(map(repr, keys))) != len(keys) or x in _rebound(n.body) or not self._keyed(list(n.body) + list(rest), x):
            return n
        chain = list(n.orelse)
        for k in reversed(keys):
            m = {x: ast.Constant(value=k)}
            test = ast.Compare(left=ast.Name(id=x, ctx=ast.Load()), ops=[ast.Eq()], comparators=[ast.Constant(value=k)])
            if rest:
                test = ast.BoolOp(op=ast.And(), values=[test] + [_Subst(dict(m)).visit(copy.deepcopy(c)) for c in rest])
            body = [_Subst(dict(m)).visit(copy.deepcopy(st)) for st in n.body]
            node = ast.copy_location(ast.If(test=test, body=body, orelse=chain), n)
            chain = [ast.fix_missing_locations(node)]
        return chain[0]


def namedtuple_tables(mod: ast.Module) -> dict:
    """name -> [field names] of the namedtuple types a module defines at its top level or in a class body:
    `X = namedtuple("X", "a b" | ["a", "b"])` and `class X(NamedTuple): a: T ...`"""
    out = {}

    def scan(body):
        for st in body:
            if isinstance(st, ast.Assign) and len(st.targets) == 1 and isinstance(st.targets[0], ast.Name) and isinstance(st.value, ast.Call) \
                    and ast.unparse(st.value.func) in ("namedtuple", "collections.namedtuple") and len(st.value.args) >= 2:
                spec = st.value.args[1]
                if isinstance(spec, ast.Constant) and isinstance(spec.value, str):
                    out[st.targets[0].id] = spec.value.replace(",", " ").split()
                elif isinstance(spec, (ast.List, ast.Tuple)) and all(isinstance(e, ast.Constant) and isinstance(e.value, str) for e in spec.elts):
                    out[st.targets[0].id] = [e.value for e in spec.elts]
            elif isinstance(st, ast.ClassDef):
                if any(ast.unparse(b) in ("NamedTuple", "typing.NamedTuple") for b in st.bases):
                    out[st.name] = [x.target.id for x in st.body if isinstance(x, ast.AnnAssign) and isinstance(x.target, ast.Name)]
                else:
                    scan(st.body)
    scan(mod.body)
    return out


def namedtuples_as_tuples(func, table: dict):
    """A local that is only ever bound to instances of ONE namedtuple type of `table` (`rec = T(*fields)`, `T._make(fields)`,
    `T(a, b, c)`, through self / cls / a module too) is the plain tuple of its fields: the constructor becomes `tuple(fields)` / the
    tuple literal in field order, and `rec.name` becomes `rec[k]`.  Records are then positions again, whatever they are called."""
    if not table:
        return func

    def type_of(call):
        if not isinstance(call, ast.Call):
            return None, None
        f = call.func
        make = isinstance(f, ast.Attribute) and f.attr == "_make"
        if make:
            f = f.value
        name = f.id if isinstance(f, ast.Name) else f.attr if isinstance(f, ast.Attribute) else None
        return (name, make) if name in table else (None, None)

    def as_tuple(call):
        name, make = type_of(call)
        fields = table[name]
        if make:
            if len(call.args) == 1 and not call.keywords:
                return ast.Call(func=ast.Name(id="tuple", ctx=ast.Load()), args=[call.args[0]], keywords=[])
            return None
        if len(call.args) == 1 and isinstance(call.args[0], ast.Starred) and not call.keywords:
            return ast.Call(func=ast.Name(id="tuple", ctx=ast.Load()), args=[call.args[0].value], keywords=[])
        if any(isinstance(a, ast.Starred) for a in call.args) or any(k.arg is None for k in call.keywords):
            return None
        given = dict(zip(fields, call.args))
        given.update({k.arg: k.value for k in call.keywords})
        if len(call.args) > len(fields) or set(given) != set(fields):
            return None
        return ast.Tuple(elts=[given[f_] for f_ in fields], ctx=ast.Load())
    binds = {}
    for n in ast.walk(func):
        if isinstance(n, ast.Name) and isinstance(n.ctx, (ast.Store, ast.Del)):
            binds.setdefault(n.id, []).append(None)
    for n in ast.walk(func):
        if isinstance(n, (ast.Assign, ast.AnnAssign)) and n.value is not None:
            tg = n.targets if isinstance(n, ast.Assign) else [n.target]
            if len(tg) == 1 and isinstance(tg[0], ast.Name):
                t, _ = type_of(n.value)
                if t is not None and as_tuple(n.value) is not None:
                    lst = binds[tg[0].id]
                    lst[lst.index(None)] = t
    params = {a.arg for a in func.args.posonlyargs + func.args.args + func.args.kwonlyargs}
    recs = {v: ts[0] for v, ts in binds.items() if v not in params and ts and None not in ts and len(set(ts)) == 1}
    if not recs:
        return func

    class T(ast.NodeTransformer):
        def visit_Attribute(self, n):
            self.generic_visit(n)
            if isinstance(n.ctx, ast.Load) and isinstance(n.value, ast.Name) and n.value.id in recs and n.attr in table[recs[n.value.id]]:
                return ast.copy_location(ast.Subscript(value=n.value, slice=ast.Constant(value=table[recs[n.value.id]].index(n.attr)), ctx=ast.Load()), n)
            return n

        def visit_Assign(self, n):
            self.generic_visit(n)
            if len(n.targets) == 1 and isinstance(n.targets[0], ast.Name) and n.targets[0].id in recs:
                n.value = ast.copy_location(as_tuple(n.value), n.value)
            return n
    func.body = [T().visit(st) for st in func.body]
    return ast.fix_missing_locations(func)


def fold_static(func, namedtuples: dict | None = None):
    """partial evaluation of the literal part of `func` (in place; see the section comment).  Idempotent; a construct it cannot fold
    safely is left as written.  `namedtuples`: namedtuple_tables of the module (records become plain tuples first)."""
    try:
        if namedtuples:
            namedtuples_as_tuples(func, namedtuples)
        for _ in range(4):
            before = ast.dump(func)
            func.body = [_Fold().visit(st) for st in func.body]
            func.body = _prune_const_ifs(func.body) or [ast.Pass()]
            func.body = _unroll_block(func.body, {}, static=True)
            func.body = [_TableDispatch().visit(st) for st in func.body]
            func.body = [_Fold().visit(st) for st in func.body]
            func.body = _prune_const_ifs(func.body) or [ast.Pass()]
            _drop_dead_tables(func)
            inline_local_defs(func)
            ast.fix_missing_locations(func)
            if ast.dump(func) == before:
                break
    except RecursionError:
        pass
    return func
