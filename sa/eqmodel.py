"""Equality / hash contracts read off the AST of __eq__, __hash__, __lt__.

`disjuncts(fn)` turns the boolean expression returned by `__eq__(self, o)` into
DNF; every literal is classified:

  ("eq", X)      self.X == o.X          (X = attribute path or normalised expression in `self`)
  ("both", X)    self.X and o.X         (truthy on both sides)
  ("self", X) / ("other", X)            one-sided condition
  ("cmp", op, text)                     anything else

`hash_reads(fn)` gives, per return path of `__hash__`, the condition and the set
of `self` attributes whose value flows into the hash.
"""
from __future__ import annotations

import ast


def _returns(fn):
    return [n for n in ast.walk(fn) if isinstance(n, ast.Return) and n.value is not None]


def _side(node, selfname, oname):
    """-> ('self'|'other'|'mixed'|'none', expression text with the receiver replaced by `_`)"""
    names = {n.id for n in ast.walk(node) if isinstance(n, ast.Name)}
    has_s, has_o = selfname in names, oname in names
    txt = ast.unparse(node)
    if has_s and not has_o:
        return "self", _strip(txt, selfname)
    if has_o and not has_s:
        return "other", _strip(txt, oname)
    if has_s and has_o:
        return "mixed", txt
    return "none", txt


def _strip(txt, name):
    import re
    return re.sub(r"\b" + re.escape(name) + r"\.", "", txt)


def dnf(node):
    """BoolOp tree -> list of conjunctions (lists of leaf nodes)."""
    if isinstance(node, ast.BoolOp) and isinstance(node.op, ast.Or):
        out = []
        for v in node.values:
            out.extend(dnf(v))
        return out
    if isinstance(node, ast.BoolOp) and isinstance(node.op, ast.And):
        res = [[]]
        for v in node.values:
            sub = dnf(v)
            res = [a + b for a in res for b in sub]
        return res
    return [[node]]


def classify(leaves, selfname, oname):
    lits = []
    pend = {}
    for leaf in leaves:
        if isinstance(leaf, ast.Compare) and len(leaf.ops) == 1 and isinstance(leaf.ops[0], ast.Eq):
            a, b = leaf.left, leaf.comparators[0]
            sa, ta = _side(a, selfname, oname)
            sb, tb = _side(b, selfname, oname)
            if {sa, sb} == {"self", "other"} and ta == tb:
                lits.append(("eq", ta))
                continue
            lits.append(("cmp", "==", ast.unparse(leaf)))
            continue
        s, t = _side(leaf, selfname, oname)
        if s in ("self", "other"):
            pend.setdefault(t, set()).add(s)
            continue
        lits.append(("cmp", "?", ast.unparse(leaf)))
    for t, sides in pend.items():
        if sides == {"self", "other"}:
            lits.append(("both", t))
        else:
            lits.append((next(iter(sides)), t))
    return sorted(lits)


def eq_disjuncts(fn: ast.FunctionDef):
    """DNF of the value `__eq__` returns for two instances. -> (list of literal lists, problems)"""
    args = [a.arg for a in fn.args.args]
    selfname, oname = args[0], args[1]
    rets = _returns(fn)
    cands = [r for r in rets if not (isinstance(r.value, ast.Name) and r.value.id == "NotImplemented")
             and not (isinstance(r.value, ast.Constant))]
    problems = []
    if len(cands) != 1:
        problems.append(f"expected one boolean return in {fn.name}, found {len(cands)}")
        if not cands:
            return [], problems
    node = cands[0].value
    return [classify(c, selfname, oname) for c in dnf(node)], problems


def attrs_read(node, selfname="self"):
    """self.<attr> reads (first-level attribute names) inside an expression."""
    out = set()
    for n in ast.walk(node):
        if isinstance(n, ast.Attribute) and isinstance(n.value, ast.Name) and n.value.id == selfname:
            out.add(n.attr)
    return out


def hash_paths(fn: ast.FunctionDef):
    """-> list of (condition text or None, set of self attributes hashed, expression text)."""
    out = []
    # `if c: return A` followed by `return B` is `return A if c else B`
    body = [st for st in fn.body if not (isinstance(st, ast.Expr) and isinstance(st.value, ast.Constant))]
    if len(body) == 2 and isinstance(body[0], ast.If) and not body[0].orelse and len(body[0].body) == 1 and isinstance(body[0].body[0], ast.Return) \
            and isinstance(body[1], ast.Return) and body[0].body[0].value is not None and body[1].value is not None:
        t, a, b = body[0].test, body[0].body[0].value, body[1].value
        return [(ast.unparse(t), attrs_read(a), ast.unparse(a)), ("not " + ast.unparse(t), attrs_read(b), ast.unparse(b))]
    if len(body) == 1 and isinstance(body[0], ast.If) and len(body[0].body) == 1 and len(body[0].orelse) == 1 \
            and isinstance(body[0].body[0], ast.Return) and isinstance(body[0].orelse[0], ast.Return):
        t, a, b = body[0].test, body[0].body[0].value, body[0].orelse[0].value
        return [(ast.unparse(t), attrs_read(a), ast.unparse(a)), ("not " + ast.unparse(t), attrs_read(b), ast.unparse(b))]
    for r in _returns(fn):
        v = r.value
        if isinstance(v, ast.IfExp):
            out.append((ast.unparse(v.test), attrs_read(v.body), ast.unparse(v.body)))
            out.append(("not " + ast.unparse(v.test), attrs_read(v.orelse), ast.unparse(v.orelse)))
        else:
            out.append((None, attrs_read(v), ast.unparse(v)))
    return out
