"""Equality / hash contracts read off the AST of __eq__, __hash__, __lt__.

`disjuncts(fn)` turns the boolean expression returned by `__eq__(self, o)` into
DNF; every literal is classified:

  ("eq", X)      self.X == o.X          (X = attribute path or normalised expression in `self`)
  ("both", X)    self.X and o.X         (truthy on both sides)
  ("self", X) / ("other", X)            one-sided condition
  ("cmp", op, text)                     anything else

`hash_reads(fn)` gives, per return path of `__hash__`, the condition and the set
of `self` attributes whose value flows into the hash.
"""
from __future__ import annotations

import ast


def _returns(fn):
    return [n for n in ast.walk(fn) if isinstance(n, ast.Return) and n.value is not None]


def _side(node, selfname, oname):
    """-> ('self'|'other'|'mixed'|'none', expression text with the receiver replaced by `_`)"""
    names = {n.id for n in ast.walk(node) if isinstance(n, ast.Name)}
    has_s, has_o = selfname in names, oname in names
    txt = ast.unparse(node)
    if has_s and not has_o:
        return "self", _strip(txt, selfname)
    if has_o and not has_s:
        return "other", _strip(txt, oname)
    if has_s and has_o:
        return "mixed", txt
    return "none", txt


def _strip(txt, name):
    import re
    return re.sub(r"\b" + re.escape(name) + r"\.", "", txt)


def dnf(node):
    """BoolOp tree -> list of conjunctions (lists of leaf nodes)."""
    if isinstance(node, ast.BoolOp) and isinstance(node.op, ast.Or):
        out = []
        for v in node.values:
            out.extend(dnf(v))
        return out
    if isinstance(node, ast.BoolOp) and isinstance(node.op, ast.And):
        res = [[]]
        for v in node.values:
            sub = dnf(v)
            res = [a + b for a in res for b in sub]
        return res
    # (a.x, a.y) == (b.x, b.y)  is  a.x == b.x and a.y == b.y
    if isinstance(node, ast.Compare) and len(node.ops) == 1 and isinstance(node.ops[0], ast.Eq) and isinstance(node.left, (ast.Tuple, ast.List)) \
            and isinstance(node.comparators[0], (ast.Tuple, ast.List)) and len(node.left.elts) == len(node.comparators[0].elts) and node.left.elts:
        return [[ast.copy_location(ast.Compare(left=l, ops=[ast.Eq()], comparators=[r]), node)
                 for l, r in zip(node.left.elts, node.comparators[0].elts)]]
    return [[node]]


def classify(leaves, selfname, oname):
    lits = []
    pend = {}
    for leaf in leaves:
        if isinstance(leaf, ast.Compare) and len(leaf.ops) == 1 and isinstance(leaf.ops[0], ast.Eq):
            a, b = leaf.left, leaf.comparators[0]
            sa, ta = _side(a, selfname, oname)
            sb, tb = _side(b, selfname, oname)
            if {sa, sb} == {"self", "other"} and ta == tb:
                lits.append(("eq", ta))
                continue
            lits.append(("cmp", "==", ast.unparse(leaf)))
            continue
        s, t = _side(leaf, selfname, oname)
        if s in ("self", "other"):
            pend.setdefault(t, set()).add(s)
            continue
        lits.append(("cmp", "?", ast.unparse(leaf)))
    for t, sides in pend.items():
        if sides == {"self", "other"}:
            lits.append(("both", t))
        else:
            lits.append((next(iter(sides)), t))
    return sorted(lits)


_NEG = {ast.Eq: ast.NotEq, ast.NotEq: ast.Eq, ast.In: ast.NotIn, ast.NotIn: ast.In, ast.Is: ast.IsNot, ast.IsNot: ast.Is}


def _not(e):
    """negation of a condition in the canonical spelling (a != b -> a == b, not not x -> x, De Morgan over and/or)"""
    if isinstance(e, ast.UnaryOp) and isinstance(e.op, ast.Not):
        return e.operand
    if isinstance(e, ast.Compare) and len(e.ops) == 1 and type(e.ops[0]) in _NEG:
        return ast.Compare(left=e.left, ops=[_NEG[type(e.ops[0])]()], comparators=list(e.comparators))
    if isinstance(e, ast.BoolOp):
        return ast.BoolOp(op=ast.And() if isinstance(e.op, ast.Or) else ast.Or(), values=[_not(v) for v in e.values])
    if isinstance(e, ast.Constant) and isinstance(e.value, bool):
        return ast.Constant(value=not e.value)
    return ast.UnaryOp(op=ast.Not(), operand=e)


def _bool(op, vals):
    out = []
    for v in vals:
        if isinstance(v, ast.BoolOp) and isinstance(v.op, op):
            out.extend(v.values)
        else:
            out.append(v)
    return out[0] if len(out) == 1 else ast.BoolOp(op=op(), values=out)


class _SubstNames(ast.NodeTransformer):
    def __init__(self, m):
        self.m = m

    def visit_Name(self, n):
        if isinstance(n.ctx, ast.Load) and n.id in self.m:
            import copy
            return copy.deepcopy(self.m[n.id])
        return n


_NOVALUE = "no-value"      # the path raises / returns NotImplemented: it yields no verdict on two instances


def returned_bool(fn: ast.FunctionDef, resolve=None, _depth: int = 0):
    """The boolean a predicate method returns, as ONE expression, whatever its statement structure: guard clauses
    (`if c: return False` ... `return x` is `not c and x`), if/else arms, locals bound once to a pure expression (substituted),
    paths that raise or return NotImplemented dropped (they give no verdict), and -- with `resolve(name) -> FunctionDef` -- calls
    `self.helper(o)` of predicate helpers of the same class replaced by what the helper returns.  None when a statement is not
    understood."""
    import copy
    params = [a.arg for a in fn.args.args]
    stores = {}
    for n in ast.walk(fn):
        if isinstance(n, ast.Name) and isinstance(n.ctx, ast.Store):
            stores[n.id] = stores.get(n.id, 0) + 1

    def fold(stmts, env):
        if not stmts:
            return None                     # falls off the end: returns None, not a boolean
        st, rest = stmts[0], stmts[1:]
        if isinstance(st, ast.Expr) and isinstance(st.value, ast.Constant):
            return fold(rest, env)
        if isinstance(st, ast.Pass):
            return fold(rest, env)
        if isinstance(st, ast.Raise):
            return _NOVALUE
        if isinstance(st, ast.Return):
            if st.value is None:
                return None
            if isinstance(st.value, ast.Name) and st.value.id == "NotImplemented":
                return _NOVALUE
            return _SubstNames(env).visit(copy.deepcopy(st.value))
        if isinstance(st, ast.Assign) and len(st.targets) == 1:
            t, v = st.targets[0], st.value
            pairs = None
            if isinstance(t, ast.Name):
                pairs = [(t, v)]
            elif isinstance(t, (ast.Tuple, ast.List)) and isinstance(v, (ast.Tuple, ast.List)) and len(t.elts) == len(v.elts) \
                    and all(isinstance(e, ast.Name) for e in t.elts):
                pairs = list(zip(t.elts, v.elts))
            if pairs is None or any(stores.get(a.id, 0) != 1 or a.id in params for a, _ in pairs):
                return None
            new = dict(env)
            for a, b in pairs:
                new[a.id] = _SubstNames(env).visit(copy.deepcopy(b))
            return fold(rest, new)
        if isinstance(st, ast.If):
            t = _SubstNames(env).visit(copy.deepcopy(st.test))
            a = fold(list(st.body) + ([] if _ends(st.body) else list(rest)), env)
            b = fold(list(st.orelse) + ([] if _ends(st.orelse) else list(rest)), env)
            if a is None or b is None:
                return None
            if a is _NOVALUE:
                return b
            if b is _NOVALUE:
                return a
            if isinstance(a, ast.Constant) and a.value is False:
                return _bool(ast.And, [_not(t), b])
            if isinstance(a, ast.Constant) and a.value is True:
                return _bool(ast.Or, [t, b])
            if isinstance(b, ast.Constant) and b.value is False:
                return _bool(ast.And, [t, a])
            if isinstance(b, ast.Constant) and b.value is True:
                return _bool(ast.Or, [_not(t), a])
            return _bool(ast.Or, [_bool(ast.And, [t, a]), _bool(ast.And, [_not(t), b])])
        return None

    def _ends(stmts):
        return bool(stmts) and isinstance(stmts[-1], (ast.Return, ast.Raise))

    e = fold(list(fn.body), {})
    if e is None or e is _NOVALUE:
        return None
    if resolve is not None and _depth < 3:
        recv = params[0] if params else "self"

        class Inl(ast.NodeTransformer):
            def visit_Call(self, n):
                self.generic_visit(n)
                if isinstance(n.func, ast.Attribute) and isinstance(n.func.value, ast.Name) and n.func.value.id == recv and not n.keywords \
                        and not any(isinstance(a, ast.Starred) for a in n.args):
                    callee = resolve(n.func.attr)
                    if callee is not None and callee is not fn and not callee.decorator_list and len(callee.args.args) == len(n.args) + 1 \
                            and all(isinstance(a, ast.Name) for a in n.args):
                        sub = returned_bool(callee, resolve, _depth + 1)
                        if sub is not None:
                            m = {callee.args.args[0].arg: ast.Name(id=recv, ctx=ast.Load())}
                            m.update({p.arg: a for p, a in zip(callee.args.args[1:], n.args)})
                            return _SubstNames(m).visit(copy.deepcopy(sub))
                return n
        e = Inl().visit(e)
    return ast.fix_missing_locations(_nnf(e))


def _nnf(e):
    """negations pushed to the leaves (`not (a != b or c != d)` is `a == b and c == d`): the same boolean in the spelling dnf reads"""
    if isinstance(e, ast.BoolOp):
        return ast.copy_location(ast.BoolOp(op=e.op, values=[_nnf(v) for v in e.values]), e)
    if isinstance(e, ast.UnaryOp) and isinstance(e.op, ast.Not) and (isinstance(e.operand, (ast.BoolOp, ast.UnaryOp)) or
                                                                     (isinstance(e.operand, ast.Compare) and len(e.operand.ops) == 1 and type(e.operand.ops[0]) in _NEG)):
        inner = e.operand
        if isinstance(inner, ast.UnaryOp) and not isinstance(inner.op, ast.Not):
            return e
        return _nnf(ast.copy_location(_not(inner), e))
    return e


class _Names(ast.NodeTransformer):
    """replace loaded local names by the expressions they were bound to"""

    def __init__(self, env):
        self.env = env

    def visit_Name(self, n):
        if isinstance(n.ctx, ast.Load) and n.id in self.env:
            import copy
            return copy.deepcopy(self.env[n.id])
        return n


def _subst(node, env):
    import copy
    return _Names(env).visit(copy.deepcopy(node)) if env else node


_NI = "NotImplemented"


def _inline_predicates(e, recv, owner, resolve, depth=0):
    """the expression with calls `recv.helper(a, ..)` of predicate helper methods (resolve(name) -> FunctionDef | None; plain-name
    arguments) replaced by the boolean the helper returns (returned_bool) -- `self._same_grain(o)` is the conjunction it abbreviates"""
    import copy
    if resolve is None or depth > 3:
        return e

    class Inl(ast.NodeTransformer):
        def visit_Call(self, n):
            self.generic_visit(n)
            if isinstance(n.func, ast.Attribute) and isinstance(n.func.value, ast.Name) and n.func.value.id == recv and not n.keywords \
                    and all(isinstance(a, ast.Name) for a in n.args):
                try:
                    callee = resolve(n.func.attr)
                except Exception:
                    callee = None
                if isinstance(callee, ast.FunctionDef) and callee is not owner and not callee.decorator_list and len(callee.args.args) == len(n.args) + 1:
                    sub = returned_bool(callee, resolve)
                    if sub is not None:
                        m = {callee.args.args[0].arg: ast.Name(id=recv, ctx=ast.Load())}
                        m.update({p.arg: a for p, a in zip(callee.args.args[1:], n.args)})
                        return _SubstNames(m).visit(copy.deepcopy(sub))
            return n
    return ast.fix_missing_locations(Inl().visit(copy.deepcopy(e)))


def _body_dnf(stmts, env, problems, inl=lambda e: e):
    """DNF (list of conjunctions = lists of leaf nodes) of the value a statement list returns, read as a boolean; `_NI` for the
    path that answers NotImplemented; None when a statement is not understood.  Guard clauses, nested ifs and single-assignment
    locals are followed:  `if c: return True` + rest  is  `c or rest`;  `if a: if b: return True` + rest  is  `(a and b) or rest`."""
    env = dict(env)
    for i, st in enumerate(stmts):
        rest = stmts[i + 1:]
        if isinstance(st, ast.Expr) and isinstance(st.value, ast.Constant):
            continue
        if isinstance(st, ast.Pass):
            continue
        if isinstance(st, ast.Assign) and len(st.targets) == 1 and isinstance(st.targets[0], ast.Name):
            env[st.targets[0].id] = _subst(st.value, env)
            continue
        if isinstance(st, ast.AnnAssign) and isinstance(st.target, ast.Name) and st.value is not None:
            env[st.target.id] = _subst(st.value, env)
            continue
        if isinstance(st, ast.Return):
            v = st.value
            if v is None or (isinstance(v, ast.Constant) and not v.value):
                return []
            if isinstance(v, ast.Constant):
                return [[]]
            if isinstance(v, ast.Name) and v.id == _NI:
                return _NI
            v = inl(_subst(v, env))
            if isinstance(v, ast.IfExp):
                return _ite(v.test, _body_dnf([ast.Return(value=v.body)], {}, problems), _body_dnf([ast.Return(value=v.orelse)], {}, problems), problems)
            if isinstance(v, ast.Call) and isinstance(v.func, ast.Name) and v.func.id == "bool" and len(v.args) == 1 and not v.keywords:
                v = v.args[0]
            return dnf(v)
        if isinstance(st, ast.If):
            a = _body_dnf(list(st.body) + rest, env, problems, inl)
            b = _body_dnf(list(st.orelse) + rest, env, problems, inl)
            return _ite(inl(_subst(st.test, env)), a, b, problems)
        problems.append(f"statement not understood in the equality method: {ast.unparse(st)[:60]}")
        return None
    return []           # falls off the end: None, falsy


def _key(conj):
    return frozenset(ast.unparse(x) for x in conj)


def _ite(test, a, b, problems):
    """DNF of `a if test else b`"""
    if a is None or b is None:
        return None
    if a == _NI:
        return b            # the path for objects of another type is not part of the relation between two instances
    if b == _NI:
        return a
    c = dnf(test)
    bk = {_key(x) for x in b}
    if a == [[]] or all(_key(x) in {_key(y) for y in a} for x in b):
        # c ? (X or b) : b   ==   (c and X) or b
        extra = [x for x in a if _key(x) not in bk] if a != [[]] else [[]]
        return [ci + x for ci in c for x in extra] + list(b)
    if not b:
        return [ci + x for ci in c for x in a]
    if len(c) == 1 and len(c[0]) == 1:
        neg = ast.UnaryOp(op=ast.Not(), operand=c[0][0])
        return [c[0] + x for x in a] + [[neg] + x for x in b]
    problems.append(f"condition too complex to negate: {ast.unparse(test)[:60]}")
    return None


def owner_resolver(fn):
    """name -> FunctionDef of a method of the class `fn` was defined in (through the MRO), for a FunctionDef that came out of
    pymodel.Package; None for any other node"""
    own = getattr(fn, "_sa_owner", None)
    if own is None:
        return None
    pkg, cls = own

    def resolve(name):
        try:
            return pkg.resolve(cls, name)[1]
        except Exception:
            return None
    return resolve


class _PredicateCalls(ast.NodeTransformer):
    """`self.helper(o)` with `helper` a predicate method of the class (returned_bool reads it as one boolean expression) -> that
    expression with the helper's parameters replaced by the arguments"""

    def __init__(self, fn, resolve, depth=0):
        self.fn, self.resolve, self.depth = fn, resolve, depth
        self.recv = fn.args.args[0].arg if fn.args.args else "self"

    def visit_Call(self, n):
        import copy
        self.generic_visit(n)
        if isinstance(n.func, ast.Attribute) and isinstance(n.func.value, ast.Name) and n.func.value.id == self.recv and not n.keywords \
                and not any(isinstance(a, ast.Starred) for a in n.args) and all(isinstance(a, ast.Name) for a in n.args) and self.depth < 3:
            callee = self.resolve(n.func.attr)
            if isinstance(callee, ast.FunctionDef) and callee is not self.fn and not callee.decorator_list and len(callee.args.args) == len(n.args) + 1 \
                    and not (callee.args.vararg or callee.args.kwarg or callee.args.kwonlyargs):
                sub = returned_bool(callee, self.resolve, self.depth + 1)
                if sub is not None:
                    m = {callee.args.args[0].arg: ast.Name(id=self.recv, ctx=ast.Load())}
                    m.update({p.arg: a for p, a in zip(callee.args.args[1:], n.args)})
                    return _SubstNames(m).visit(copy.deepcopy(sub))
        return n


class _AnyAsOr(ast.NodeTransformer):
    """`any(..)` over a STATIC list of conditions is their disjunction (same truth value, same evaluation order, stops at the same one):

        any([a, b, c]) / any((a, b, c))                      ->  a or b or c
        any(self._tests(o))   with `def _tests(self, o): yield a; yield b; ..` (nothing but yield statements)  ->  a or b or ..
        any(rule(self, o) for rule in Cls._rules)   with `_rules = (_m1, _m2, ..)` a class-level tuple of methods of the class
                                                             ->  self._m1(o) or self._m2(o) or ..
    Anything else is left as it is."""

    def __init__(self, fn, resolve):
        self.fn, self.resolve = fn, resolve
        self.recv = fn.args.args[0].arg if fn.args.args else "self"
        own = getattr(fn, "_sa_owner", None)
        self.pkg, self.cls = own if own is not None else (None, None)

    def _table(self, e):
        """the class-level tuple / list of method names `e` reads (`Cls.T`, `self.T`, `cls.T`, `type(self).T`), as names, or None"""
        if self.pkg is None or not isinstance(e, ast.Attribute):
            return None
        b = e.value
        okb = (isinstance(b, ast.Name) and b.id in (self.recv, "cls", str(self.cls).split(".")[-1])) or \
            (isinstance(b, ast.Call) and isinstance(b.func, ast.Name) and b.func.id == "type" and len(b.args) == 1 and isinstance(b.args[0], ast.Name) and b.args[0].id == self.recv)
        if not okb:
            return None
        try:
            _, node = self.pkg.resolve_attr(self.cls, e.attr)
        except Exception:
            return None
        if not isinstance(node, (ast.Tuple, ast.List)) or not node.elts or not all(isinstance(x, ast.Name) for x in node.elts):
            return None
        names = [x.id for x in node.elts]
        return names if all(isinstance(self.resolve(nm), ast.FunctionDef) for nm in names) else None

    def visit_Call(self, n):
        import copy
        self.generic_visit(n)
        if not (isinstance(n.func, ast.Name) and n.func.id == "any" and len(n.args) == 1 and not n.keywords):
            return n
        a, elts = n.args[0], None
        if isinstance(a, (ast.List, ast.Tuple)) and a.elts and not any(isinstance(x, ast.Starred) for x in a.elts):
            elts = list(a.elts)
        elif isinstance(a, ast.Call) and isinstance(a.func, ast.Attribute) and isinstance(a.func.value, ast.Name) and a.func.value.id == self.recv \
                and not a.keywords and all(isinstance(x, ast.Name) for x in a.args) and self.resolve is not None:
            callee = self.resolve(a.func.attr)
            if isinstance(callee, ast.FunctionDef) and callee is not self.fn and not callee.decorator_list and len(callee.args.args) == len(a.args) + 1 \
                    and not (callee.args.vararg or callee.args.kwarg or callee.args.kwonlyargs):
                body = [st for st in callee.body if not (isinstance(st, ast.Expr) and isinstance(st.value, ast.Constant))]
                if body and all(isinstance(st, ast.Expr) and isinstance(st.value, ast.Yield) and st.value.value is not None for st in body):
                    m = {callee.args.args[0].arg: ast.Name(id=self.recv, ctx=ast.Load())}
                    m.update({p.arg: x for p, x in zip(callee.args.args[1:], a.args)})
                    elts = [_SubstNames(m).visit(copy.deepcopy(st.value.value)) for st in body]
        elif isinstance(a, (ast.GeneratorExp, ast.ListComp)) and len(a.generators) == 1 and not a.generators[0].ifs and isinstance(a.generators[0].target, ast.Name) \
                and self.resolve is not None:
            v = a.generators[0].target.id
            names = self._table(a.generators[0].iter)
            e = a.elt
            if names and isinstance(e, ast.Call) and isinstance(e.func, ast.Name) and e.func.id == v and not e.keywords and e.args \
                    and isinstance(e.args[0], ast.Name) and e.args[0].id == self.recv \
                    and not any(isinstance(x, ast.Name) and x.id == v for arg in e.args for x in ast.walk(arg)):
                elts = [ast.Call(func=ast.Attribute(value=ast.Name(id=self.recv, ctx=ast.Load()), attr=nm, ctx=ast.Load()),
                                 args=[copy.deepcopy(x) for x in e.args[1:]], keywords=[]) for nm in names]
        if not elts:
            return n
        return ast.copy_location(elts[0] if len(elts) == 1 else ast.BoolOp(op=ast.Or(), values=elts), n)


def eq_disjuncts(fn: ast.FunctionDef, resolve=None):
    """DNF of the value `__eq__` returns for two instances. -> (list of literal lists, problems).  Predicate helpers of the same
    class called on self (`self._same_grain(o)`) are read through: `resolve(name) -> FunctionDef | None`, by default the methods of
    the class the function came from (pymodel)."""
    import copy
    args = [a.arg for a in fn.args.args]
    selfname, oname = args[0], args[1]
    problems = []
    resolve = resolve or owner_resolver(fn)
    body = list(fn.body)
    if resolve is not None and any(isinstance(n, ast.Call) and isinstance(n.func, ast.Name) and n.func.id == "any" for n in ast.walk(fn)):
        tr0 = _AnyAsOr(fn, resolve)
        body = [ast.fix_missing_locations(tr0.visit(copy.deepcopy(st))) for st in body]
    if resolve is not None and any(isinstance(n, ast.Call) and isinstance(n.func, ast.Attribute) and isinstance(n.func.value, ast.Name) and n.func.value.id == selfname
                                   for st in body for n in ast.walk(st)):
        tr = _PredicateCalls(fn, resolve)
        body = [ast.fix_missing_locations(tr.visit(copy.deepcopy(st))) for st in body]
    d = _body_dnf(body, {}, problems, (lambda e: _inline_predicates(e, selfname, fn, resolve)) if resolve is not None else (lambda e: e))
    if d is None or d == _NI:
        if not problems:
            problems.append(f"no boolean value returned by {fn.name}")
        return [], problems
    # drop duplicated disjuncts, keep source order
    seen, out = set(), []
    for conj in d:
        k = _key(conj)
        if k not in seen:
            seen.add(k)
            out.append(conj)
    return [classify(c, selfname, oname) for c in out], problems


def attrs_read(node, selfname="self"):
    """self.<attr> reads (first-level attribute names) inside an expression."""
    out = set()
    for n in ast.walk(node):
        if isinstance(n, ast.Attribute) and isinstance(n.value, ast.Name) and n.value.id == selfname:
            out.add(n.attr)
    return out


def attrs_read_deep(fn, resolve, selfname=None, _seen=None):
    """self.<attr> reads of a method, following `self.helper(..)` calls into the methods `resolve(name) -> FunctionDef | None`
    finds in the same class: the names of those helpers are not attributes, what they read is."""
    selfname = selfname or (fn.args.args[0].arg if fn.args.args else "self")
    _seen = _seen if _seen is not None else set()
    called = {n.func.attr for n in ast.walk(fn) if isinstance(n, ast.Call) and isinstance(n.func, ast.Attribute)
              and isinstance(n.func.value, ast.Name) and n.func.value.id == selfname}
    out = set()
    for a in attrs_read(fn, selfname):
        callee = resolve(a) if a in called else None
        if callee is None:
            out.add(a)
        elif id(callee) not in _seen and callee is not fn:
            _seen.add(id(callee))
            out |= attrs_read_deep(callee, resolve, None, _seen)
    return out


def hash_paths(fn: ast.FunctionDef, resolve=None):
    """-> list of (condition text or None, set of self attributes hashed, expression text), one per return path.
    Guard clauses, if/else, conditional expressions and single-assignment locals are followed (`x = (..); return hash(x)` reads
    what `x` reads); with `resolve(name) -> FunctionDef | None`, a call `self.helper()` of a helper that is one `return e` is
    replaced by `e`."""
    selfname = fn.args.args[0].arg if fn.args.args else "self"

    class _Helpers(ast.NodeTransformer):
        def __init__(self, depth=0):
            self.depth = depth

        def visit_Call(self, n):
            self.generic_visit(n)
            if resolve is not None and self.depth < 4 and isinstance(n.func, ast.Attribute) and isinstance(n.func.value, ast.Name) \
                    and n.func.value.id == selfname and not n.args and not n.keywords:
                try:
                    callee = resolve(n.func.attr)
                except Exception:
                    callee = None
                if isinstance(callee, ast.FunctionDef) and callee is not fn and len(callee.args.args) == 1 and not callee.decorator_list:
                    sub = _paths(list(callee.body), [], {callee.args.args[0].arg: ast.Name(id=selfname, ctx=ast.Load())}, self.depth + 1)
                    if sub is not None and len(sub) == 1 and not sub[0][0]:
                        return sub[0][1]
            return n

    def _paths(stmts, conds, env, depth=0):
        env = dict(env)
        for i, st in enumerate(stmts):
            rest = stmts[i + 1:]
            if isinstance(st, (ast.Pass,)) or (isinstance(st, ast.Expr) and isinstance(st.value, ast.Constant)):
                continue
            if isinstance(st, ast.Assign) and len(st.targets) == 1 and isinstance(st.targets[0], ast.Name):
                env[st.targets[0].id] = _Helpers(depth).visit(_subst(st.value, env))
                continue
            if isinstance(st, ast.Return) and st.value is not None:
                v = _Helpers(depth).visit(_subst(st.value, env))
                if isinstance(v, ast.IfExp):
                    return [(conds + [(v.test, True)], v.body), (conds + [(v.test, False)], v.orelse)]
                return [(conds, v)]
            if isinstance(st, ast.If):
                t = _subst(st.test, env)
                a = _paths(list(st.body) + rest, conds + [(t, True)], env, depth)
                b = _paths(list(st.orelse) + rest, conds + [(t, False)], env, depth)
                return None if a is None or b is None else a + b
            return None
        return []

    def ctext(conds):
        if not conds:
            return None
        return " and ".join(ast.unparse(t) if pol else "not " + ast.unparse(t) for t, pol in conds)

    ps = _paths(list(fn.body), [], {})
    if ps is None:
        # a statement kind that is not followed: fall back to the returns as written
        ps = []
        for r in _returns(fn):
            if isinstance(r.value, ast.IfExp):
                ps += [([(r.value.test, True)], r.value.body), ([(r.value.test, False)], r.value.orelse)]
            else:
                ps.append(([], r.value))
    return [(ctext(c), attrs_read(v, selfname), ast.unparse(v)) for c, v in ps]
