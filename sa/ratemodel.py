"""Rate-law templates of the reaction / grain / thermal classes, extracted by
use-def expansion (sa.valueflow) -- nothing is imported or called.

* `enum_value`, `code_table`: per-format IntEnum aliases and code tables resolved
  to naunet.reactiontype.ReactionType integer values.
* `variants(cls, meth)`: every (dispatch arm x truthiness of optional factors x
  inner branch) of a `rateexpr` / `rate_*` method as C text with typed holes.
* `registry(cls)`: ordered symbol registrations of the class's __init__ chain.

Spelling-independence of `variants`: constants hoisted out of the method are read as their displays (`module_consts`, also through
`from .module import NAME`; `class_displays` / `class_consts` for tables read through self/cls); a method that scans such a table is
re-normalised with the table in place (`specialised`: the scan unrolls into the chain); private helper methods and small module-level
helper functions are inlined by value, keeping their refusing (`raise`) arms; table-driven dispatch (dict display subscripted / .get,
table of lambdas, table of text templates filled with str.format / %) is read as the if/elif chain it abbreviates (`lookup_chains`).
"""
from __future__ import annotations

import ast
import itertools
from dataclasses import dataclass, field

from .core import AnalysisError, MISSING, UNRECOGNISED
from .pymodel import package
from .valueflow import Flow, lower, peval, show, simp, subst, walk, truthy, flatten_fstr

SELF = ("param", "self")


@dataclass
class Variant:
    cls: str
    meth: str
    defined_in: str
    file: str
    line: int
    conds: tuple            # ((cond IR, polarity), ...) -- dispatch path
    assume: dict            # {condition IR: bool} -- truthiness of optional factors
    kind: str               # text | raise | notimplemented | delegate | other
    text: str = ""
    holes: dict = field(default_factory=dict)
    seqs: dict = field(default_factory=dict)
    beautified: bool = False
    raw: object = None
    exc: str = ""

    def label(self):
        return f"{self.cls}.{self.meth}[{'; '.join(('' if p else 'not ') + show(c)[:60] for c, p in self.conds)}]" + \
            ("{" + ",".join(f"{show(k)[-12:]}={v}" for k, v in sorted(self.assume.items(), key=repr)) + "}" if self.assume else "")


def split_phi(v, path=()):
    """Flatten nested phi values into [(conds, leaf)]."""
    if isinstance(v, tuple) and v and v[0] == "phi":
        return split_phi(v[2], path + ((v[1], True),)) + split_phi(v[3], path + ((v[1], False),))
    return [(path, v)]


def _comp_filter_eval(v, assume):
    """`sep.join(s for s in [..literal..] if s)` -> keep the truthy elements."""
    if not isinstance(v, tuple) or not v:
        return v
    v = tuple(_comp_filter_eval(x, assume) if isinstance(x, tuple) else x for x in v)
    # filter(None, [..literal..])  ==  (s for s in [..literal..] if s)
    if v[0] == "call" and v[1] == ("global", "filter") and len(v[2]) == 2 and not v[3] and v[2][0] == ("const", None) and v[2][1][0] in ("list", "tuple"):
        bv = ("bv", "_f", 0)
        v = ("comp", "gen", bv, ((bv, v[2][1], (bv,)),))
    if v[0] == "comp" and len(v[3]) == 1:
        tg, it, ifs = v[3][0]
        if tg is not None and tg[0] == "bv" and it[0] in ("list", "tuple") and v[2] == tg and tuple(ifs) == (tg,):
            keep = []
            for e in it[1]:
                e2 = peval(e, assume)
                t = truthy(e2)
                if t is None and e2[0] == "fstr":
                    t = True      # a formatted number is never the empty string
                if t is None:
                    return v
                if t:
                    keep.append(e2)
            return ("list", tuple(keep))
    return v


def lookup_chains(v, depth=0):
    """Table-driven dispatch read as the if/elif chain it abbreviates (values only, nothing is run):
        {k1: v1, k2: v2}[key]            ->  phi(key == k1, v1, phi(key == k2, v2, raise KeyError))
        {k1: v1, ..}.get(key[, default]) ->  ... else default (None)
        <phi of lambdas>(args)           ->  phi of the bodies with the parameters bound
    for dict displays whose keys are constants / enum members.  Applied to the value a rate builder returns, so that each row of
    the table becomes a variant with its own dispatch condition."""
    if not isinstance(v, tuple) or not v or depth > 40:
        return v
    v = tuple(lookup_chains(x, depth + 1) if isinstance(x, tuple) else x for x in v)

    def table(d):
        return d[0] == "dict" and 0 < len(d[1]) <= 40 and all(k_[0] == "const" or (k_[0] == "attr" and k_[2].isupper()) for k_, _ in d[1])

    def chain(d, key, default):
        out = default
        for k_, val in reversed(d[1]):
            out = ("phi", ("cmp", ("Eq",), (key, k_)), val, out)
        return out
    if v[0] == "sub" and table(v[1]) and v[2][0] != "slice":
        return chain(v[1], v[2], ("raise", ("global", "KeyError")))
    if v[0] == "meth" and v[2] == "get" and table(v[1]) and len(v[3]) in (1, 2) and not v[4]:
        return chain(v[1], v[3][0], v[3][1] if len(v[3]) == 2 else ("const", None))
    # a template picked from the table and filled in: <phi of literal templates>.format(..) / <phi> % (..) is the phi of the filled templates
    if (v[0] == "meth" and v[2] == "format" and v[1][0] == "phi") or (v[0] == "binop" and v[1] == "Mod" and v[2][0] == "phi"):
        def fill(t):
            if t[0] == "phi":
                a, b = fill(t[2]), fill(t[3])
                return None if a is None or b is None else ("phi", t[1], a, b)
            if t[0] == "raise":
                return t
            if t[0] == "const" and isinstance(t[1], str):
                return Flow._format_to_fstr(t[1], v[3], dict(v[4])) if v[0] == "meth" else Flow._percent_to_fstr(t[1], v[3])
            return None
        r = fill(v[1] if v[0] == "meth" else v[2])
        if r is not None:
            return r
    if v[0] == "call" and v[1][0] == "phi" and not v[3] and not any(a[0] == "star" for a in v[2]):
        def apply(f):
            if f[0] == "phi":
                a, b = apply(f[2]), apply(f[3])
                return None if a is None or b is None else ("phi", f[1], a, b)
            if f[0] == "raise" or f == ("const", None):
                return f if f[0] == "raise" else ("raise", ("global", "TypeError"))
            if f[0] == "lambda" and len(f[1]) == len(v[2]):
                return simp(subst(f[2], dict(zip(f[1], v[2]))))
            return None
        r = apply(v[1])
        if r is not None:
            return r
    return v


def surface_helper(pkg) -> str:
    """Name of the private grain method that builds the shared surface-reaction rate (called as self.<name>(reac) from
    rate_surface_twobody / rate_reactive_desorption) -- found by role so that renaming it is not an analysis failure."""
    import ast as _ast
    for cls in ("HH93Grain", "Grain"):
        if cls not in pkg.classes:
            continue
        meths = pkg.classes[cls].methods

        def reach(m, seen=None):
            # private methods of the class reached from method m through self.<_name>(..), in call order, helpers of helpers included
            seen = [] if seen is None else seen
            for c in _ast.walk(meths[m]) if m in meths else ():
                if isinstance(c, _ast.Call) and isinstance(c.func, _ast.Attribute) and isinstance(c.func.value, _ast.Name) and c.func.value.id == "self" \
                        and c.func.attr.startswith("_") and not c.func.attr.startswith("__") and c.func.attr in meths and c.func.attr not in seen:
                    seen.append(c.func.attr)
                    reach(c.func.attr, seen)
            return seen
        a = reach("rate_surface_twobody")
        if not a:
            continue
        # the helper the two surface processes SHARE (the outermost such: not itself reached from another shared one), whatever
        # other private helpers either of them was split into
        b = reach("rate_reactive_desorption")
        shared = [x for x in a if x in b]
        for x in shared:
            if not any(x in reach(y) for y in shared if y != x):
                return x
        return a[0]
    return "_rate_surface"


def beautifier(pkg) -> str:
    """Name of the private Reaction method a rate text passes through on its way out of rateexpr (`rate = self.<name>(rate)`): a
    text -> text method that does nothing but str.replace on its argument -- found by role so that renaming it is not an analysis failure."""
    import ast as _ast
    ci = pkg.classes.get("Reaction")
    fn = ci.methods.get("rateexpr") if ci is not None else None
    for c in _ast.walk(fn) if fn is not None else ():
        if isinstance(c, _ast.Call) and isinstance(c.func, _ast.Attribute) and isinstance(c.func.value, _ast.Name) and c.func.value.id == "self" and len(c.args) == 1 \
                and not c.keywords and c.func.attr.startswith("_") and not c.func.attr.startswith("__") and c.func.attr in ci.methods:
            m = ci.methods[c.func.attr]
            calls = [x for x in _ast.walk(m) if isinstance(x, _ast.Call)]
            if len(m.args.args) == 2 and calls and all(isinstance(x.func, _ast.Attribute) and x.func.attr == "replace" for x in calls):
                return c.func.attr
    return "_beautify"


_LITERAL_NODES = (ast.Constant, ast.Tuple, ast.List, ast.Set, ast.Dict, ast.Attribute, ast.Name, ast.UnaryOp, ast.USub, ast.UAdd, ast.Load)


def _literal_like(node) -> bool:
    """a display of constants / enum members / other names: evaluating it runs nothing"""
    return all(isinstance(n, _LITERAL_NODES) for n in ast.walk(node))


def _getter_call(node) -> bool:
    """`attrgetter("a", "b")` / `operator.itemgetter(0)` with constant arguments: a pure projection, bound to a module-level name it is
    as good as a literal (valueflow.simp applies it to its argument)"""
    return isinstance(node, ast.Call) and not node.keywords and bool(node.args) and all(isinstance(a, ast.Constant) for a in node.args) \
        and ast.unparse(node.func) in ("attrgetter", "itemgetter", "operator.attrgetter", "operator.itemgetter")


def static_dict(node):
    """[(key node, value node)] of a class-level / module-level table, whichever way the dict is spelled: a display, `dict(<static
    sequence of pairs>)` (a display of 2-tuples, zip / enumerate of displays ...: normalize._static_seq), `dict(k=v, ..)`, a dict
    comprehension over such a sequence.  None when the entries cannot be read off."""
    from .normalize import _static_seq, _destructure, _Subst, _fold_expr
    import copy
    if isinstance(node, ast.Dict):
        return None if any(k is None for k in node.keys) else list(zip(node.keys, node.values))
    pairs = None
    if isinstance(node, ast.Call) and isinstance(node.func, ast.Name) and node.func.id == "dict" and len(node.args) <= 1 \
            and all(k.arg is not None for k in node.keywords):
        pairs = []
        if node.args:
            inner = static_dict(node.args[0]) if isinstance(node.args[0], (ast.Dict, ast.DictComp)) else None
            if inner is not None:
                pairs = list(inner)
            else:
                seq = _static_seq(node.args[0], {})
                if seq is None or not all(isinstance(e, (ast.Tuple, ast.List)) and len(e.elts) == 2 for e in seq.elts):
                    return None
                pairs = [(e.elts[0], e.elts[1]) for e in seq.elts]
        pairs += [(ast.Constant(value=k.arg), k.value) for k in node.keywords]
    elif isinstance(node, ast.DictComp) and len(node.generators) == 1 and not node.generators[0].is_async:
        g = node.generators[0]
        seq = _static_seq(g.iter, {})
        if seq is None:
            return None
        pairs = []
        for e in seq.elts:
            m = _destructure(g.target, e)
            if m is None:
                return None
            # (a filter must be decided by the row's literals: `if name != "X"`)
            tests = [_fold_expr(_Subst(dict(m)).visit(copy.deepcopy(c))) for c in g.ifs]
            if not all(isinstance(t, ast.Constant) for t in tests):
                return None
            if all(t.value for t in tests):
                pairs.append(tuple(_fold_expr(_Subst(dict(m)).visit(copy.deepcopy(x))) for x in (node.key, node.value)))
    if pairs is None or not all(isinstance(k, ast.Constant) for k, _ in pairs):
        return None
    return pairs


def record_type(st):
    """("rectype", name, fields[, defaults]) for a module-level statement that defines a namedtuple type, else None"""
    if isinstance(st, ast.Assign) and len(st.targets) == 1 and isinstance(st.targets[0], ast.Name) and isinstance(st.value, ast.Call) \
            and ast.unparse(st.value.func) in ("namedtuple", "collections.namedtuple") and len(st.value.args) == 2 and not st.value.keywords:
        spec = st.value.args[1]
        try:
            fields = ast.literal_eval(spec)
        except Exception:
            return None
        if isinstance(fields, str):
            fields = fields.replace(",", " ").split()
        if isinstance(fields, (list, tuple)) and fields and all(isinstance(x, str) and x.isidentifier() for x in fields):
            return ("rectype", st.targets[0].id, tuple(fields))
    if isinstance(st, ast.ClassDef) and [ast.unparse(b) for b in st.bases] in (["NamedTuple"], ["typing.NamedTuple"]) and not st.decorator_list:
        fields, defaults = [], []
        for b in st.body:
            if isinstance(b, ast.AnnAssign) and isinstance(b.target, ast.Name):
                fields.append(b.target.id)
                if b.value is not None:
                    if not isinstance(b.value, ast.Constant):
                        return None
                    defaults.append((b.target.id, ("const", b.value.value)))
            elif isinstance(b, ast.Assign):
                return None
        if fields:
            return ("rectype", st.name, tuple(fields), tuple(defaults))
    return None


def dataclass_type(st):
    """("rectype", name, fields, defaults) for a module-level `@dataclass class X:` whose constructor is the generated one (no bases, no
    __init__ / __post_init__ / __new__ of its own, init not switched off, constant defaults): X(a, b) / X(a, y=b) binds the fields
    positionally like a NamedTuple.  None otherwise."""
    if not isinstance(st, ast.ClassDef) or st.bases or st.keywords:
        return None
    decs = [ast.unparse(d) for d in st.decorator_list]
    if len(decs) != 1 or decs[0].split("(")[0] not in ("dataclass", "dataclasses.dataclass") or "init=False" in decs[0].replace(" ", ""):
        return None
    fields, defaults = [], []
    for b in st.body:
        if isinstance(b, (ast.FunctionDef, ast.AsyncFunctionDef)) and b.name in ("__init__", "__post_init__", "__new__", "__getattribute__", "__getattr__"):
            return None
        if isinstance(b, ast.AnnAssign) and isinstance(b.target, ast.Name) and "ClassVar" not in ast.unparse(b.annotation):
            fields.append(b.target.id)
            if b.value is not None:
                if not isinstance(b.value, ast.Constant):
                    return None
                defaults.append((b.target.id, ("const", b.value.value)))
    return ("rectype", st.name, tuple(fields), tuple(defaults)) if fields else None


def _ev_literal(node, consts=None):
    """IR of a literal-like expression outside any function"""
    dummy = ast.parse("def _():\n    pass").body[0]
    return Flow(dummy, consts=consts or {}).ev(node)


class RateModel:
    def __init__(self, tree):
        self.tree = tree
        self.pkg = package(tree)
        self._flows = {}
        self._enum = None
        self._mconsts = {}
        self._cconsts = {}
        self._cdisp = {}
        self._spec = {}
        self._fnfile = None

    def imported_from(self, file: str, alias: str):
        """(file, name) of the package module a name was imported from with `from .module import name [as alias]`, or None"""
        import posixpath
        modname, name = self.pkg.imports.get(file, {}).get(alias, (None, None))
        if name is None or not modname or not modname.startswith("."):
            return None
        level = len(modname) - len(modname.lstrip("."))
        base = posixpath.dirname(file)
        for _ in range(level - 1):
            base = posixpath.dirname(base)
        rel = modname.lstrip(".").replace(".", "/")
        for cand in ([posixpath.join(base, rel + ".py"), posixpath.join(base, rel, "__init__.py")] if rel else [posixpath.join(base, "__init__.py")]):
            if cand in self.pkg.modules and cand != file:
                return (cand, name)
        return None

    # ---------------------------------------------------------------- constants hoisted out of the methods
    def module_consts(self, file: str) -> dict:
        """{name: IR} of module-level names bound exactly once to a literal-like display (a tuple of ReactionType members, a
        table of (code, text) pairs, a number): reading such a name inside a method is reading the display"""
        if file not in self._mconsts:
            mod = self.pkg.modules.get(file)
            out = {}
            if mod is not None:
                count = {}
                for n in ast.walk(mod):
                    if isinstance(n, ast.Name) and isinstance(n.ctx, (ast.Store, ast.Del)):
                        count[n.id] = count.get(n.id, 0) + 1
                    elif isinstance(n, (ast.Global, ast.Nonlocal)):
                        for nm in n.names:
                            count[nm] = count.get(nm, 0) + 2
                    elif isinstance(n, ast.Call) and isinstance(n.func, ast.Attribute) and isinstance(n.func.value, ast.Name) \
                            and n.func.attr in ("append", "extend", "add", "update", "insert", "pop", "remove", "clear", "sort", "reverse", "setdefault", "popitem", "discard"):
                        count[n.func.value.id] = count.get(n.func.value.id, 0) + 2
                    elif isinstance(n, (ast.Assign, ast.AugAssign)):
                        for t in (n.targets if isinstance(n, ast.Assign) else [n.target]):
                            if isinstance(t, ast.Subscript) and isinstance(t.value, ast.Name):
                                count[t.value.id] = count.get(t.value.id, 0) + 2
                # (names bound once in the whole module: a function-local of the same name disqualifies, which is the safe side)
                # a constant imported from another module of the package (`from .tables import _ON_GRAIN`) is that module's constant
                self._mconsts[file] = out          # (cycle guard: a module being resolved exposes what it has so far)
                for alias in self.pkg.imports.get(file, {}):
                    tgt = self.imported_from(file, alias)
                    if tgt is not None and not count.get(alias):
                        other = self.module_consts(tgt[0])
                        if tgt[1] in other:
                            out[alias] = other[tgt[1]]
                for st in mod.body:
                    if isinstance(st, ast.Assign) and len(st.targets) == 1 and isinstance(st.targets[0], ast.Name) and count.get(st.targets[0].id) == 1 \
                            and not isinstance(st.value, (ast.Name, ast.Attribute)) and (_literal_like(st.value) or _getter_call(st.value)):
                        out[st.targets[0].id] = simp(_ev_literal(st.value, out))
                    # record types: `P = namedtuple("P", ["a", "b"])` / `namedtuple("P", "a b")` / `class P(NamedTuple): a: T; b: T = d`
                    rt = record_type(st)
                    if rt is not None and count.get(rt[1], 0) <= 1:
                        out[rt[1]] = rt
            self._mconsts[file] = out
        return self._mconsts[file]

    def dataclass_types(self, file: str) -> dict:
        """{name: rectype} of the module-level dataclasses of `file` (see dataclass_type) -- for a rule that wants `X(a, b).m()` read through;
        not part of module_consts, whose users match constructor calls of the package's dataclasses as calls"""
        mod = self.pkg.modules.get(file)
        out = {}
        for st in (mod.body if mod is not None else ()):
            rt = dataclass_type(st)
            if rt is not None:
                out[rt[1]] = rt
        return out

    def class_displays(self, cls: str) -> dict:
        """{name: (display AST node, file)} of the class-level tables (tuple / list / set / dict displays of constants, enum members and
        other names) visible through self/cls in `cls` (MRO, the most derived binding wins) that nothing in the MRO re-assigns
        (`self.X = ..`, setattr), mutates in place (`self.X.append(..)`, `self.X[k] = ..`) or shadows by a method."""
        if cls not in self._cdisp:
            out = {}
            mro = [c for c in self.pkg.mro(cls) if c in self.pkg.classes]
            stored = set()

            def own(n):
                """name X of an expression self.X / cls.X"""
                return n.attr if isinstance(n, ast.Attribute) and isinstance(n.value, ast.Name) and n.value.id in ("self", "cls") else None
            for c in mro:
                for fn in self.pkg.classes[c].methods.values():
                    for n in ast.walk(fn):
                        if isinstance(n, ast.Attribute) and isinstance(n.ctx, (ast.Store, ast.Del)) and own(n):
                            stored.add(n.attr)
                        elif isinstance(n, ast.Call) and isinstance(n.func, ast.Name) and n.func.id in ("setattr", "delattr"):
                            stored.add("*")
                        elif isinstance(n, ast.Call) and isinstance(n.func, ast.Attribute) and own(n.func.value) and n.func.attr in \
                                ("append", "extend", "add", "update", "insert", "pop", "remove", "clear", "sort", "reverse", "setdefault", "popitem", "discard"):
                            stored.add(n.func.value.attr)
                        elif isinstance(n, ast.Subscript) and isinstance(n.ctx, (ast.Store, ast.Del)) and own(n.value):
                            stored.add(n.value.attr)
            for c in reversed(mro):
                ci = self.pkg.classes[c]
                for nm, node in ci.attrs.items():
                    if isinstance(node, (ast.Tuple, ast.List, ast.Set, ast.Dict)) and _literal_like(node) and nm not in stored and "*" not in stored \
                            and not any(nm in self.pkg.classes[k].methods for k in mro):
                        out[nm] = (node, ci.file)
                    else:
                        out.pop(nm, None)
            self._cdisp[cls] = out
        return self._cdisp[cls]

    def class_consts(self, cls: str) -> dict:
        """{("attr", self|cls, name): IR} for the class-level tables of class_displays: `x in self._table` is `x in (<the display>)`"""
        if cls not in self._cconsts:
            out = {}
            for nm, (node, file) in self.class_displays(cls).items():
                ir = simp(_ev_literal(node, self.module_consts(file)))
                out[("attr", SELF, nm)] = ir
                out[("attr", ("param", "cls"), nm)] = ir
            self._cconsts[cls] = out
        return self._cconsts[cls]

    def specialised(self, cls: str, fn):
        """`fn` (a method seen from class `cls`) with every read of a class-level table through self/cls replaced by the display it is
        bound to, and normalised again (core._Canon / normalize: a `for row in self._TABLE` scan is now a loop over a literal and is
        unrolled into the if/elif chain it abbreviates, `getattr(self, <name from the row>)` becomes the attribute ..).  A copy; `fn`
        itself when it reads no such table.  Only sequence tables (tuple / list) defined in the same module are substituted (their element
        expressions mean the same there); dict / set tables are left to the IR-level substitution of class_consts."""
        if self._fnfile is None:
            self._fnfile = {id(m): ci.file for ci in self.pkg.classes.values() for m in ci.methods.values()}
        ffile = self._fnfile.get(id(fn))
        disp = {nm: node for nm, (node, file) in self.class_displays(cls).items() if isinstance(node, (ast.Tuple, ast.List)) and file == ffile}
        hits = [n for n in ast.walk(fn) if isinstance(n, ast.Attribute) and isinstance(n.ctx, ast.Load) and isinstance(n.value, ast.Name)
                and n.value.id in ("self", "cls") and n.attr in disp]
        if not hits:
            return fn
        key = (cls, id(fn))
        if key not in self._spec:
            import copy
            from .normalize import normalize_function, module_tables

            class Sub(ast.NodeTransformer):
                def visit_Attribute(self, n):
                    self.generic_visit(n)
                    if isinstance(n.ctx, ast.Load) and isinstance(n.value, ast.Name) and n.value.id in ("self", "cls") and n.attr in disp:
                        return ast.copy_location(copy.deepcopy(disp[n.attr]), n)
                    return n
            new = ast.fix_missing_locations(Sub().visit(copy.deepcopy(fn)))
            mod = self.pkg.modules.get(ffile)
            self._spec[key] = normalize_function(new, module_tables(mod) if mod is not None else None)
        return self._spec[key]

    # ---------------------------------------------------------------- enums
    def basic_types(self) -> dict:
        if self._enum is None:
            ci = self.pkg.cls("ReactionType")
            out = {}
            for k, v in ci.attrs.items():
                try:
                    out[k] = ast.literal_eval(v)
                except Exception:
                    pass
            self._enum = out
        return self._enum

    def enum_members(self, cls: str) -> dict:
        """{member name: int} of the nested IntEnum `cls.ReactionType` (or the basic enum)."""
        name = f"{cls}.ReactionType"
        if name not in self.pkg.classes:
            return dict(self.basic_types())
        out = {}
        for k, v in self.pkg.classes[name].attrs.items():
            val = self._enum_expr(cls, v)
            if val is not None:
                out[k] = val
        return out

    def _enum_expr(self, cls, node):
        """int value of `BasicType.X` / `ReactionType.X` / `self.ReactionType.X` / literal."""
        try:
            return ast.literal_eval(node)
        except Exception:
            pass
        src = ast.unparse(node)
        parts = src.split(".")
        member = parts[-1]
        owner = ".".join(parts[:-1])
        file = self.pkg.classes[cls].file if cls in self.pkg.classes else None
        if owner in ("self.ReactionType", "cls.ReactionType") or (owner == "ReactionType" and f"{cls}.ReactionType" in self.pkg.classes and
                                                                   member in self.pkg.classes[f"{cls}.ReactionType"].attrs):
            return self.enum_members(cls).get(member)
        if owner in ("BasicType", "ReactionType", "naunet.reactiontype.ReactionType"):
            return self.basic_types().get(member)
        return None

    def enum_of_ir(self, cls, ir):
        """int value of an IR like attr(attr(self,'ReactionType'),'X') / attr(global ReactionType,'X') / const."""
        if ir[0] == "const" and isinstance(ir[1], int):
            return ir[1]
        if ir[0] == "attr":
            owner, member = ir[1], ir[2]
            if owner == ("attr", SELF, "ReactionType"):
                # resolved through the class where the method is *used* (cls), as Python does
                for c in self.pkg.mro(cls):
                    if f"{c}.ReactionType" in self.pkg.classes:
                        return self.enum_members(c).get(member)
                return None
            if owner[0] == "global" and owner[1] in ("ReactionType", "BasicType"):
                return self.basic_types().get(member)
        return None

    def _members_written_out(self, cls: str, node):
        """`<Enum>.__members__` of an enum class of the package (the nested per-format ReactionType of `cls`, or the basic one) written
        as the dict display {"NAME": <Enum>.NAME, ..} it is equal to (definition order, aliases included) -- a copy of `node`"""
        import copy
        rm = self

        class M(ast.NodeTransformer):
            def visit_Attribute(self, n):
                self.generic_visit(n)
                if n.attr != "__members__" or not isinstance(n.ctx, ast.Load):
                    return n
                owner = ast.unparse(n.value)
                ci = None
                if owner in ("ReactionType", "self.ReactionType", "cls.ReactionType", f"{cls}.ReactionType") and f"{cls}.ReactionType" in rm.pkg.classes:
                    ci = rm.pkg.classes[f"{cls}.ReactionType"]
                elif owner in ("BasicType", "ReactionType") and "ReactionType" in rm.pkg.classes:
                    ci = rm.pkg.classes["ReactionType"]
                if ci is None or not ci.attrs:
                    return n
                d = ast.Dict(keys=[ast.Constant(value=k) for k in ci.attrs], values=[ast.Attribute(value=copy.deepcopy(n.value), attr=k, ctx=ast.Load()) for k in ci.attrs])
                return ast.fix_missing_locations(ast.copy_location(d, n))
        return M().visit(copy.deepcopy(node))

    def code_table(self, cls: str, attr: str) -> dict:
        """{code: (member text, int value)} of a class-level dict such as formula2type."""
        c, node = self.pkg.resolve_attr(cls, attr)
        if node is not None and any(isinstance(n, ast.Attribute) and n.attr == "__members__" for n in ast.walk(node)):
            node = self._members_written_out(c, node)
        pairs = static_dict(node) if node is not None else None
        if pairs is None:
            raise AnalysisError(f"code table {cls}.{attr} vanished" if node is None else f"code table {cls}.{attr} is not a table whose entries can be read off: "
                                f"{ast.unparse(node)[:80]}", (self.pkg.cls(cls).file, getattr(node, "lineno", 0)), MISSING if node is None else UNRECOGNISED)
        out = {}
        for k, v in pairs:
            out[ast.literal_eval(k)] = (ast.unparse(v), self._enum_expr(cls, v))
        return out

    # ---------------------------------------------------------------- flows
    def flow(self, cls: str, meth: str):
        dc, fn = self.pkg.resolve(cls, meth)
        if fn is None:
            raise AnalysisError(f"{cls}.{meth} not found", (self.pkg.cls(cls).file, 0), MISSING)
        fn0, fn = fn, self.specialised(cls, fn)
        key = (dc, meth) if fn is fn0 else (dc, meth, cls)
        if key not in self._flows:
            no_inline = {"_beautify", beautifier(self.pkg), "_create_species", surface_helper(self.pkg), "_parse_string", "register", "unregister"}

            def resolver(name, cls=cls):
                if name in no_inline or not name.startswith("_") or name.startswith("__"):
                    return None
                _, f = self.pkg.resolve(cls, name)
                return self.specialised(cls, f) if f is not None else None
            dfile = self.pkg.cls(dc).file
            func_resolver = self.func_resolver(dfile, no_inline | {"_fill_list"})
            self._flows[key] = Flow(fn, dfile, keep_arms=True, resolver=resolver, consts=self.module_consts(dfile), raise_arms=True, func_resolver=func_resolver)
        return dc, fn, self._flows[key]

    def func_resolver(self, dfile: str, no_inline=frozenset()):
        """resolver for Flow(func_resolver=..): a small module-level helper function of module `dfile` (or imported there from a package
        module) called by its bare name;  "<Class>.<method>": a method of a helper class of the same module (a record type with methods)"""
        def resolve(name):
            if name in no_inline:
                return None
            if "." in name:
                cname, mname = name.split(".", 1)
                ci = self.pkg.classes.get(cname)
                return ci.methods.get(mname) if ci is not None and ci.file == dfile else None
            f = self.pkg.functions.get((dfile, name))
            if f is None:
                tgt = self.imported_from(dfile, name)
                f = self.pkg.functions.get(tgt) if tgt is not None else None
            return f
        return resolve

    def variants(self, cls: str, meth: str = "rateexpr", enumerate_conditions=True) -> list:
        dc, fn, fl = self.flow(cls, meth)
        file = self.pkg.cls(dc).file
        out = []
        cc = self.class_consts(cls)

        def K(x):
            # class-level tables read through self/cls are the displays they are bound to
            return simp(subst(x, cc)) if cc else simp(x)
        for f in fl.facts:
            if f.kind == "raise":
                exc = show(f.value)[:80] if f.value else ""
                out.append(Variant(cls, meth, dc, file, f.line, tuple((K(c), p) for c, p in f.guards), {}, "raise", exc=exc))
        for f in fl.facts:
            if f.kind != "return":
                continue
            base = tuple((K(c), p) for c, p in f.guards)
            v = K(f.value)
            if any(isinstance(x, tuple) and x and x[0] == "dict" for x in walk(v)):
                v = simp(lookup_chains(v))
            beaut = False
            BEAUT = ("_beautify", beautifier(self.pkg))
            if v[0] == "meth" and v[1] == SELF and v[2] in BEAUT and len(v[3]) == 1:
                beaut = True
                v = v[3][0]
            for path, leaf in split_phi(v):
                conds = base + tuple(_prim_cond(simp(c), p) for c, p in path)
                # a value that passed through _beautify inside one arm only
                b2 = beaut
                if leaf[0] == "meth" and leaf[1] == SELF and leaf[2] in BEAUT and len(leaf[3]) == 1:
                    b2 = True
                    leaf = leaf[3][0]
                if leaf == ("global", "NotImplemented"):
                    out.append(Variant(cls, meth, dc, file, f.line, conds, {}, "notimplemented"))
                    continue
                if leaf[0] == "raise" and len(leaf) == 2:
                    # a refusing arm of a dispatch chain that lives in an inlined helper (Flow(raise_arms=True))
                    out.append(Variant(cls, meth, dc, file, f.line, conds, {}, "raise", exc=show(leaf[1])[:80] if leaf[1] != ("const", None) else ""))
                    continue
                if leaf[0] == "meth" and leaf[2] == "rateexpr" and leaf[1] == ("param", "grain"):
                    out.append(Variant(cls, meth, dc, file, f.line, conds, {}, "delegate", raw=leaf))
                    continue
                if leaf[0] == "meth" and leaf[1] == SELF and leaf[2].startswith("rate_"):
                    out.append(Variant(cls, meth, dc, file, f.line, conds, {}, "delegate", raw=leaf))
                    continue
                if leaf[0] == "undef" or leaf == ("undef",):
                    continue
                # optional-factor conditions
                seen_txt = set()
                # the path already fixes some primitive conditions: optional factors must be expanded consistently with it
                given = {c: p for c, p in conds if not any(isinstance(y, tuple) and y and y[0] in ("ifexp", "phi") for y in walk(c))}
                for assume, pe in _expand(leaf, given, enumerate_conditions):
                    assume = {k: v2 for k, v2 in assume.items() if k not in given}
                    if any(isinstance(x, tuple) and x == ("undef",) for x in walk(pe)):
                        continue
                    lw = lower(pe)
                    sig = (lw.text, tuple(sorted(map(repr, lw.holes.values()))))
                    if sig in seen_txt:
                        continue
                    seen_txt.add(sig)
                    out.append(Variant(cls, meth, dc, file, f.line, conds, assume, "text", lw.text, dict(lw.holes), dict(lw.seqs), b2, raw=pe))
        return out

    # ---------------------------------------------------------------- registry
    def registry(self, cls: str) -> list:
        """Ordered registrations performed by cls.__init__ (super().__init__ chains followed).
        -> [dict(name, symbol, value, kind, force, line, file, cls, op)]  op = register | unregister"""
        out = []
        seen = set()

        def run(c):
            dc, fn = self.pkg.resolve(c, "__init__")
            if fn is None or dc in seen:
                return
            seen.add(dc)
            # the constructor with the private helpers it delegates registrations to put back (`self._register_all(table)`)
            try:
                fn = self.pkg.expanded(dc, "__init__", keep=("register", "unregister"))
            except AnalysisError:
                pass
            fl = Flow(fn, self.pkg.cls(dc).file, consts=self.module_consts(self.pkg.cls(dc).file))
            for f in fl.facts:
                if f.kind != "call":
                    continue
                v = f.value
                if v[0] == "meth" and v[2] == "__init__" and v[1][0] == "call" and v[1][1] == ("global", "super"):
                    nxt = self.pkg.mro(dc)[1:]
                    for b in nxt:
                        if b in self.pkg.classes and "__init__" in self.pkg.classes[b].methods:
                            run(b)
                            break
                elif v[0] == "meth" and v[1] == SELF and v[2] == "register":
                    args = v[3]
                    kws = dict(v[4])
                    # (register(name, variable, force_overwrite) -- each argument positional or by keyword)
                    if not args and "name" not in kws:
                        continue
                    name = simp(args[0]) if args else simp(kws["name"])
                    var = simp(args[1]) if len(args) > 1 else simp(kws.get("variable")) if kws.get("variable") is not None else None
                    force = (len(args) > 2 and args[2] == ("const", True)) or kws.get("force_overwrite") == ("const", True)
                    sym = val = kind = None
                    if var and var[0] == "tuple" and len(var[1]) == 3:
                        sym, val, kind = var[1]
                        kind = kind[2] if kind[0] == "attr" else show(kind)
                    out.append(dict(op="register", name=name, symbol=simp(sym) if sym else None, value=simp(val) if val else None, kind=kind,
                                    force=force, line=f.line, file=self.pkg.cls(dc).file, cls=dc, loops=f.loops, guards=f.guards))
                elif v[0] == "meth" and v[1] == SELF and v[2] == "unregister":
                    out.append(dict(op="unregister", name=simp(v[3][0]), symbol=None, value=None, kind=None, force=False, line=f.line,
                                    file=self.pkg.cls(dc).file, cls=dc, loops=f.loops, guards=f.guards))
        run(cls)
        return out

    def effective_registry(self, cls: str) -> dict:
        """name -> registration that survives (first wins unless force_overwrite; unregister removes)."""
        eff = {}
        for r in self.registry(cls):
            if r["loops"]:
                continue      # user-driven dynamic registrations (KROME @var/@common)
            nm = r["name"]
            if nm[0] != "const":
                continue
            key = nm[1]
            if r["op"] == "unregister":
                eff.pop(key, None)
            elif key not in eff or r["force"]:
                eff[key] = r
        return eff


def _prim_cond(c, pol):
    """A path condition that is itself a conditional VALUE (`if shield:` with shield = '' or text) reduced to the
    primitive condition that decides its truthiness."""
    for _ in range(4):
        if c[0] in ("phi", "ifexp"):
            ta, tb = truthy(c[2]), truthy(c[3])
            if ta is None and c[2][0] == "fstr":
                ta = True
            if tb is None and c[3][0] == "fstr":
                tb = True
            if ta is not None and tb is not None and ta != tb:
                c, pol = c[1], (pol if ta else not pol)
                continue
        break
    return (c, pol)


def _expand(v, assume, enumerate_conditions=True, depth=0):
    """Decide the undecided ifexp/phi tests of `v` one at a time (outermost first)."""
    pe = simp(peval(_comp_filter_eval(peval(v, assume), assume), assume))
    test = None
    if enumerate_conditions and depth < 7:
        cands = [x[1] for x in walk(pe) if isinstance(x, tuple) and x and x[0] in ("ifexp", "phi") and truthy(x[1]) is None]
        # decide primitive conditions first: a condition that is itself a conditional value follows from them
        prim = [c for c in cands if not any(isinstance(y, tuple) and y and y[0] in ("ifexp", "phi") for y in walk(c))]
        # ... and atomic conditions before and/or/not compounds of them (`x if a or b else y` next to `u if a else v`): once the
        # atoms are decided the compound follows, so no inconsistent combination (a or b true, a false, b false) is enumerated
        atomic = [c for c in prim if c[0] != "bool" and not (c[0] == "unop" and c[1] == "Not")]
        if cands:
            test = (atomic or prim or cands)[0]
    if test is None:
        yield dict(assume), pe
        return
    for val in (True, False):
        a2 = dict(assume)
        a2[test] = val
        yield from _expand(pe, a2, enumerate_conditions, depth + 1)


def _relevant(leaf, test, assume):
    """Does flipping `test` change the specialised value?"""
    a2 = dict(assume)
    a2[test] = not assume[test]
    return simp(peval(_comp_filter_eval(peval(leaf, assume), assume), assume)) != simp(peval(_comp_filter_eval(peval(leaf, a2), a2), a2))


def _contains(a, b):
    return any(x == b for x in walk(a))


def model(tree) -> RateModel:
    if "_ratemodel" not in tree.__dict__:
        tree.__dict__["_ratemodel"] = RateModel(tree)
    return tree.__dict__["_ratemodel"]
