"""Constant folding of pure Python expressions over literal data (strings, numbers, tuples, lists, dicts, sets).

A rule that needs the VALUE of a table the source spells out -- a list of case names, a solver/method table -- must not depend on
whether the table is one literal display, a comprehension over a class-level dict, a `"/".join`, a product of two tuples ...
`fold(node, env)` computes the value of an expression whose leaves are literals, names bound in `env`, and `self.X` / `cls.X` /
`Class.X` reads that `attr(name)` resolves to another foldable expression.  Only a closed list of side-effect-free operations of
the built-in immutable/value types is applied (string / dict / list methods that return a new value, a few builtins and
itertools functions, operators, comprehensions); anything else raises `NotConstant`, and the rule answers UNRECOGNISED.  Nothing
of the analysed package is imported or run: the operations applied are Python's own on values written in the source text.

`run(stmts, env)` folds a straight-line prefix of assignment statements (`a = e`, `a, b = e`), skipping what cannot be folded (the
targets become unknown), and returns the environment -- enough to ask "which value does `solver` take when `case` is this string"."""
from __future__ import annotations

import ast
import itertools
import operator


class NotConstant(Exception):
    pass


_STR_METHODS = {"split", "rsplit", "join", "format", "strip", "lstrip", "rstrip", "lower", "upper", "title", "capitalize", "startswith", "endswith", "replace",
                "partition", "rpartition", "find", "rfind", "index", "count", "splitlines", "removeprefix", "removesuffix", "zfill", "isdigit", "isalpha"}
_DICT_METHODS = {"items", "keys", "values", "get", "copy"}
_SEQ_METHODS = {"index", "count", "copy"}
_BUILTINS = {"len": len, "str": str, "int": int, "float": float, "bool": bool, "list": list, "tuple": tuple, "dict": dict, "set": set, "frozenset": frozenset,
             "sorted": sorted, "zip": zip, "enumerate": enumerate, "range": range, "reversed": reversed, "min": min, "max": max, "sum": sum, "any": any, "all": all,
             "map": map, "filter": filter, "repr": repr, "format": format, "abs": abs}
_ITERTOOLS = {"product": itertools.product, "chain": itertools.chain, "combinations": itertools.combinations,
              "permutations": itertools.permutations, "zip_longest": itertools.zip_longest}
_BINOPS = {ast.Add: operator.add, ast.Sub: operator.sub, ast.Mult: operator.mul, ast.Mod: operator.mod, ast.FloorDiv: operator.floordiv, ast.Div: operator.truediv,
           ast.BitOr: operator.or_, ast.BitAnd: operator.and_}
_CMPOPS = {ast.Eq: operator.eq, ast.NotEq: operator.ne, ast.Lt: operator.lt, ast.LtE: operator.le, ast.Gt: operator.gt, ast.GtE: operator.ge,
           ast.In: lambda a, b: a in b, ast.NotIn: lambda a, b: a not in b, ast.Is: operator.is_, ast.IsNot: operator.is_not}
_VALUE_TYPES = (str, int, float, bool, type(None), tuple, list, dict, set, frozenset, bytes)
_LIMIT = 20000


def _materialise(v):
    """lazy iterators (zip, map, product ..) are kept lazy only inside one expression; a folded VALUE is a list"""
    if isinstance(v, _VALUE_TYPES):
        return v
    if isinstance(v, (range, type({}.items()), type({}.keys()), type({}.values()))):
        return list(v)
    if hasattr(v, "__next__") or isinstance(v, (zip, map, filter, enumerate, reversed, itertools.product, itertools.chain)):
        return list(itertools.islice(v, _LIMIT))
    raise NotConstant(type(v).__name__)


class _Folder:
    def __init__(self, env, attr, itertools_name=None, funcs=None):
        self.env = env
        self.attr = attr                      # name -> ast expression of a class-level binding, or None
        self.funcs = funcs                    # name -> FunctionDef of a module-level function whose body is one `return <expression>`
        self.itn = itertools_name or (lambda f: f.attr if isinstance(f, ast.Attribute) and isinstance(f.value, ast.Name) and f.value.id == "itertools" else None)
        self.depth = 0
        self.class_scope = False

    def ev(self, n):
        self.depth += 1
        if self.depth > 4000:
            raise NotConstant("too deep")
        m = getattr(self, "e_" + type(n).__name__, None)
        if m is None:
            raise NotConstant(type(n).__name__)
        return m(n)

    def e_Constant(self, n):
        return n.value

    def e_Name(self, n):
        if n.id in self.env:
            return self.env[n.id]
        if self.class_scope and self.attr is not None:
            # inside a class body a bare name is an earlier binding of that body
            e = self.attr(n.id)
            if e is not None:
                return self._class_value(e)
        raise NotConstant(n.id)

    def _class_value(self, e):
        f = _Folder({}, self.attr, self.itn)
        f.class_scope = True
        f.depth = self.depth
        return f.ev(e)

    def e_Attribute(self, n):
        if isinstance(n.value, ast.Name) and n.value.id in ("self", "cls") and self.attr is not None:
            e = self.attr(n.attr)
            if e is not None:
                return self._class_value(e)
        raise NotConstant(ast.unparse(n))

    def e_JoinedStr(self, n):
        out = []
        for v in n.values:
            if isinstance(v, ast.Constant):
                out.append(str(v.value))
            else:
                x = self.ev(v.value)
                if not isinstance(x, (str, int, float)) or isinstance(x, bool):
                    raise NotConstant("format of a container")
                spec = self.e_JoinedStr(v.format_spec) if v.format_spec is not None else ""
                x = {115: str, 114: repr, 97: ascii}.get(v.conversion, lambda y: y)(x)
                out.append(format(x, spec))
        return "".join(out)

    def e_Tuple(self, n):
        return tuple(self._elts(n.elts))

    def e_List(self, n):
        return list(self._elts(n.elts))

    def e_Set(self, n):
        return set(self._elts(n.elts))

    def _elts(self, elts):
        out = []
        for e in elts:
            if isinstance(e, ast.Starred):
                out.extend(_materialise(self.ev(e.value)))
            else:
                out.append(self.ev(e))
        return out

    def e_Dict(self, n):
        out = {}
        for k, v in zip(n.keys, n.values):
            if k is None:
                out.update(self.ev(v))
            else:
                out[self.ev(k)] = self.ev(v)
        return out

    def e_Subscript(self, n):
        b = self.ev(n.value)
        if isinstance(n.slice, ast.Slice):
            s = slice(*(None if x is None else self.ev(x) for x in (n.slice.lower, n.slice.upper, n.slice.step)))
            return _materialise(b)[s]
        try:
            return b[self.ev(n.slice)]
        except Exception as ex:
            raise NotConstant(f"subscript: {ex}")

    def e_BinOp(self, n):
        op = _BINOPS.get(type(n.op))
        if op is None:
            raise NotConstant("operator")
        a, b = self.ev(n.left), self.ev(n.right)
        if isinstance(n.op, ast.Mult) and any(isinstance(x, int) and abs(x) > _LIMIT for x in (a, b)):
            raise NotConstant("too large")
        try:
            return op(a, b)
        except Exception as ex:
            raise NotConstant(str(ex))

    def e_UnaryOp(self, n):
        v = self.ev(n.operand)
        try:
            return {ast.Not: operator.not_, ast.USub: operator.neg, ast.UAdd: operator.pos}[type(n.op)](v)
        except Exception as ex:
            raise NotConstant(str(ex))

    def e_BoolOp(self, n):
        v = None
        for x in n.values:
            v = self.ev(x)
            if isinstance(n.op, ast.And) and not v:
                return v
            if isinstance(n.op, ast.Or) and v:
                return v
        return v

    def e_Compare(self, n):
        left = self.ev(n.left)
        for op, r in zip(n.ops, n.comparators):
            right = self.ev(r)
            try:
                if not _CMPOPS[type(op)](left, right):
                    return False
            except Exception as ex:
                raise NotConstant(str(ex))
            left = right
        return True

    def e_IfExp(self, n):
        return self.ev(n.body) if self.ev(n.test) else self.ev(n.orelse)

    def _bind(self, target, value, env):
        if isinstance(target, ast.Name):
            env[target.id] = value
        elif isinstance(target, (ast.Tuple, ast.List)) and not any(isinstance(e, ast.Starred) for e in target.elts):
            vs = list(_materialise(value))
            if len(vs) != len(target.elts):
                raise NotConstant("unpacking arity")
            for t, v in zip(target.elts, vs):
                self._bind(t, v, env)
        else:
            raise NotConstant("target")

    def _comp(self, gens, emit):
        saved = self.env
        count = 0

        def rec(i, env):
            nonlocal count
            if i == len(gens):
                self.env = env
                emit()
                count += 1
                if count > _LIMIT:
                    raise NotConstant("too many elements")
                return
            g = gens[i]
            self.env = env
            for item in _materialise(self.ev(g.iter)):
                e2 = dict(env)
                self._bind(g.target, item, e2)
                self.env = e2
                if all(self.ev(c) for c in g.ifs):
                    rec(i + 1, e2)
        try:
            rec(0, dict(saved))
        finally:
            self.env = saved

    def e_ListComp(self, n):
        out = []
        self._comp(n.generators, lambda: out.append(self.ev(n.elt)))
        return out

    e_GeneratorExp = e_ListComp

    def e_SetComp(self, n):
        return set(self.e_ListComp(n))

    def e_DictComp(self, n):
        out = {}

        def emit():
            k = self.ev(n.key)
            out[k] = self.ev(n.value)
        self._comp(n.generators, emit)
        return out

    def e_Call(self, n):
        if any(k.arg is None for k in n.keywords):
            raise NotConstant("**kwargs")
        f = n.func
        args = self._elts(n.args)
        kws = {k.arg: self.ev(k.value) for k in n.keywords}
        try:
            if isinstance(f, ast.Name) and f.id in _BUILTINS and f.id not in self.env:
                if f.id == "range" and any(isinstance(a, int) and abs(a) > _LIMIT for a in args):
                    raise NotConstant("too large")
                if f.id in ("map", "filter"):
                    raise NotConstant("function argument")
                return _materialise(_BUILTINS[f.id](*args, **kws)) if f.id in ("zip", "enumerate", "reversed", "range") else _BUILTINS[f.id](*args, **kws)
            if isinstance(f, ast.Name) and self.funcs and f.id in self.funcs and f.id not in self.env:
                return self._apply(self.funcs[f.id], args, kws)
            it = self.itn(f)
            if it is not None and it in _ITERTOOLS:
                return list(itertools.islice(_ITERTOOLS[it](*args, **kws), _LIMIT))
            if isinstance(f, ast.Attribute):
                recv = self.ev(f.value)
                ok = (isinstance(recv, str) and f.attr in _STR_METHODS) or (isinstance(recv, dict) and f.attr in _DICT_METHODS) or \
                    (isinstance(recv, (list, tuple)) and f.attr in _SEQ_METHODS)
                if ok:
                    if isinstance(recv, str) and f.attr == "join":
                        args = [list(_materialise(args[0]))] if args else args
                    return _materialise(getattr(recv, f.attr)(*args, **kws))
        except NotConstant:
            raise
        except Exception as ex:
            raise NotConstant(f"{ast.unparse(f)}: {ex}")
        raise NotConstant(ast.unparse(f))


def _apply(self, fn, args, kws):
    """value of a call of a module-level function that only computes a value: its body is (a docstring and) one `return <expression>`
    over its parameters and the module's constants -- the expression folded with the parameters bound to the arguments"""
    body = [st for st in fn.body if not (isinstance(st, ast.Expr) and isinstance(st.value, ast.Constant))]
    a = fn.args
    if len(body) != 1 or not isinstance(body[0], ast.Return) or body[0].value is None or fn.decorator_list or a.posonlyargs or self.depth > 3000:
        raise NotConstant(fn.name)
    names = [x.arg for x in a.args]
    if len(args) > len(names) and a.vararg is None:
        raise NotConstant(f"{fn.name}: arity")
    bound = dict(zip(names, args))
    if a.vararg is not None:
        bound[a.vararg.arg] = tuple(args[len(names):])
    for x, d in zip(a.kwonlyargs, a.kw_defaults):
        if d is not None:
            bound.setdefault(x.arg, self.ev(d))
    for k, v in kws.items():
        if k in bound and k in names[:len(args)] or (k not in names and k not in [x.arg for x in a.kwonlyargs]):
            raise NotConstant(f"{fn.name}: keyword {k}")
        bound[k] = v
    for x, d in zip(names[len(names) - len(a.defaults):], a.defaults):
        if x not in bound:
            bound[x] = self.ev(d)
    if any(x not in bound for x in names + [y.arg for y in a.kwonlyargs]) or a.kwarg is not None:
        raise NotConstant(f"{fn.name}: arguments")
    inner = _Folder({**self.env, **bound}, self.attr, self.itn, self.funcs)
    inner.depth = self.depth + 50
    return _materialise(inner.ev(body[0].value))


_Folder._apply = _apply


def fold(node, env=None, attr=None, itertools_name=None, funcs=None):
    """value of the expression, or raise NotConstant"""
    try:
        return _materialise(_Folder(dict(env or {}), attr, itertools_name, funcs).ev(node))
    except RecursionError:
        raise NotConstant("recursion")


def run(stmts, env=None, attr=None, itertools_name=None, funcs=None):
    """environment after the assignment statements among `stmts` (top level, in order); a target whose value cannot be folded is
    removed from the environment (unknown from there on); other statements that bind a name make it unknown as well.
    `funcs` (a dict, filled on the way): the functions defined among `stmts` so far -- calls of those that only compute a value
    (`def layout(*lines): return "\n".join(lines)`) are folded."""
    env = dict(env or {})
    for st in stmts:
        if funcs is not None and isinstance(st, ast.FunctionDef):
            funcs[st.name] = st
            env.pop(st.name, None)
            continue
        if isinstance(st, ast.Assign) and len(st.targets) == 1:
            names = [x.id for x in ast.walk(st.targets[0]) if isinstance(x, ast.Name) and isinstance(x.ctx, ast.Store)]
            try:
                v = fold(st.value, env, attr, itertools_name, funcs)
                new = dict(env)
                _Folder(env, attr)._bind(st.targets[0], v, new)
                env = new
            except NotConstant:
                for nm in names:
                    env.pop(nm, None)
        else:
            for x in ast.walk(st):
                if isinstance(x, ast.Name) and isinstance(x.ctx, (ast.Store, ast.Del)):
                    env.pop(x.id, None)
    return env


def class_attr_resolver(pkg, cls):
    """attr(name) for fold/run: the expression bound to `name` in the body of class `cls` or of a base class (pymodel MRO), provided no
    method of the package stores that attribute"""
    def attr(name):
        _, e = pkg.resolve_attr(cls, name)
        return e
    return attr
