"""Static-analysis checks for appolloford/naunet (see /verif/DESIGN.md).

Nothing in this package imports or runs naunet; every check parses /repo's
working tree (Python with ast, templates with jinja2's parser, C text with the
purpose-built parsers of sa.calg / sa.cskel) and decides rules over the parse.
"""
