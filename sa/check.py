"""CLI: python -m sa.check <ID> --tier quick|thorough [--replay path]

exit 0  every obligation discharged (or only listed known findings)
exit 1  VIOLATION property=<id> replay=<path>   (one line per unlisted violation)
exit 2  ANALYSIS-ERROR (anchor vanished, shape not understood, checker
        self-validation failed, internal exception) -- never a verdict
"""
from __future__ import annotations

import argparse
import importlib
import json
import os
import sys
import time
import traceback
from concurrent.futures import ProcessPoolExecutor

from .core import (AnalysisError, Ctx, SourceTree, VERIF, REPO, OK, VIOLATION,
                   UNRECOGNISED, MISSING, load_known, write_json, norm_text)

PROPS = ["C%02d" % i for i in range(1, 21)]


def load(prop: str):
    return importlib.import_module(f"sa.props.{prop.lower()}")


def run_rules(prop: str, overlay: dict | None = None, tier: str = "quick") -> Ctx:
    mod = load(prop)
    ctx = Ctx(SourceTree(REPO, overlay), prop, tier)
    try:
        mod.check(ctx)
    except AnalysisError as e:
        w = e.where or ("", 0)
        ctx._add(__import__("sa.core").core.Ob("ENGINE", norm_text(str(e))[:120], w[0], w[1], e.kind, str(e)))
    return ctx


# ----------------------------------------------------------------------
# self-validation (thorough tier): seeded mutants must be reported at the
# mutated construct, behaviour-preserving variants must be silent.

def apply_edit(tree: SourceTree, m: dict):
    """-> overlay dict or None when the edit's anchor text is not in today's tree."""
    overlay = {}
    edits = m["edits"] if "edits" in m else [m]
    for e in edits:
        rel = e["file"]
        if not tree.exists(rel):
            return None
        text = overlay.get(rel, tree.read(rel))
        old, new = e["old"], e["new"]
        n = text.count(old)
        want = e.get("count", 1)
        if n != want:
            return None
        overlay[rel] = text.replace(old, new)
    return overlay


def _worker(args):
    prop, kind, m = args
    try:
        tree = SourceTree(REPO)
        overlay = apply_edit(tree, m)
        if overlay is None:
            return (kind, m["name"], "inapplicable", [], [])
        ctx = run_rules(prop, overlay)
        viol = [(o.rule, o.key, o.file, o.line, o.msg) for o in ctx.by(VIOLATION)]
        errs = [(o.rule, o.key, o.file, o.line, o.msg) for o in ctx.by(UNRECOGNISED) + ctx.by(MISSING)]
        return (kind, m["name"], "ran", viol, errs)
    except Exception as e:  # checker bug
        return (kind, m["name"], "crash", [], [("ENGINE", "", "", 0, "".join(traceback.format_exception_only(type(e), e)).strip())])


def self_validate(prop: str, base: Ctx) -> dict:
    mod = load(prop)
    muts = list(getattr(mod, "MUTANTS", []))
    ben = list(getattr(mod, "BENIGN", []))
    base_keys = {(o.rule, o.key) for o in base.by(VIOLATION)}
    jobs = [(prop, "mutant", m) for m in muts] + [(prop, "benign", m) for m in ben]
    res = {"mutants_total": len(muts), "mutants_killed": 0, "mutants_inapplicable": 0,
           "benign_total": len(ben), "benign_silent": 0, "benign_inapplicable": 0,
           "failures": [], "killed": [], "inapplicable": []}
    if not jobs:
        return res
    with ProcessPoolExecutor(max_workers=min(16, len(jobs))) as ex:
        out = list(ex.map(_worker, jobs))
    bym = {m["name"]: m for m in muts + ben}
    for kind, name, state, viol, errs in out:
        m = bym[name]
        if state == "inapplicable":
            res["mutants_inapplicable" if kind == "mutant" else "benign_inapplicable"] += 1
            res["inapplicable"].append(name)
            continue
        new = [v for v in viol if (v[0], v[1]) not in base_keys]
        if kind == "mutant":
            want = set(m.get("rules", []))
            hit = [v for v in new if not want or v[0] in want]
            if hit or (m.get("accept_error") and errs):
                res["mutants_killed"] += 1
                res["killed"].append({"mutant": name, "reported": (hit or errs)[0][:4]})
            else:
                res["failures"].append({"mutant": name, "state": state, "new_violations": new[:3], "errors": errs[:3],
                                        "why": "seeded defect not reported by the expected rule"})
        else:
            if not new and not errs:
                res["benign_silent"] += 1
            else:
                res["failures"].append({"benign": name, "state": state, "new_violations": new[:3], "errors": errs[:3],
                                        "why": "behaviour-preserving variant raised an alarm"})
    return res


def _corpus_worker(args):
    prop, kind, name, path = args
    try:
        from .patchapply import overlay_of
        tree = SourceTree(REPO)
        overlay = overlay_of(tree, open(path, encoding="utf-8", errors="replace").read())
        if overlay is None:
            return (kind, name, "inapplicable", [], [])
        ctx = run_rules(prop, overlay)
        viol = [(o.rule, o.key, o.file, o.line, o.msg[:200]) for o in ctx.by(VIOLATION)]
        errs = [(o.rule, o.key, o.file, o.line, o.msg[:200]) for o in ctx.by(UNRECOGNISED) + ctx.by(MISSING)]
        return (kind, name, "ran", viol, errs)
    except Exception as e:
        return (kind, name, "crash", [], [("ENGINE", "", "", 0, "".join(traceback.format_exception_only(type(e), e)).strip())])


def corpus_validate(prop: str, base: Ctx) -> dict:
    """Stored corpora, analysed as in-memory overlays of today's tree (sa/patchapply.py; nothing is written to disk):
    seeded/<prop>*/patch.diff -- changes by independent authors that break <prop> (verified with a failing demonstration): each must be
    reported; benign/*/*/*/patch.diff -- behaviour-preserving refactors by independent authors (generated output byte-identical): each must
    leave this check silent.  corpus_expect.json lists the exceptions measured on the committed machinery (open items, see DESIGN)."""
    exp_path = os.path.join(VERIF, "corpus_expect.json")
    exp = json.load(open(exp_path)) if os.path.isfile(exp_path) else {}
    open_benign = {k for k, v in exp.get("benign_open", {}).items() if prop in v}
    unrep = set(exp.get("seed_unreported", []))
    jobs = []
    sroot = os.path.join(VERIF, "seeded")
    if os.path.isdir(sroot):
        for d in sorted(os.listdir(sroot)):
            pth = os.path.join(sroot, d, "patch.diff")
            if d[:3] == prop and os.path.isfile(pth):
                jobs.append((prop, "seed", d, pth))
    broot = os.path.join(VERIF, "benign")
    if os.path.isdir(broot):
        for dp, dn, fn in os.walk(broot):
            dn.sort()
            if "patch.diff" in fn:
                jobs.append((prop, "benign", os.path.relpath(dp, broot), os.path.join(dp, "patch.diff")))
    res = {"seeds_total": 0, "seeds_reported": 0, "seeds_known_unreported": [], "benign_total": 0, "benign_silent": 0, "benign_known_open": [],
           "inapplicable": [], "failures": []}
    if not jobs:
        return res
    base_keys = {(o.rule, o.key) for o in base.by(VIOLATION)}
    with ProcessPoolExecutor(max_workers=min(16, len(jobs))) as ex:
        out = list(ex.map(_corpus_worker, jobs, chunksize=2))
    for kind, name, state, viol, errs in out:
        if state == "inapplicable":
            res["inapplicable"].append(name)
            continue
        new = [v for v in viol if (v[0], v[1]) not in base_keys]
        if kind == "seed":
            res["seeds_total"] += 1
            if new:
                res["seeds_reported"] += 1
            elif name in unrep:
                res["seeds_known_unreported"].append(name)
            else:
                res["failures"].append({"seed": name, "state": state, "errors": errs[:2], "why": "stored seeded change (a verified real defect) is not reported"})
        else:
            res["benign_total"] += 1
            if not new and not errs:
                res["benign_silent"] += 1
            elif name in open_benign:
                res["benign_known_open"].append(name)
            else:
                res["failures"].append({"benign": name, "state": state, "new_violations": new[:2], "errors": errs[:2],
                                        "why": "stored behaviour-preserving refactor raises an alarm"})
    return res


def alpha_invariance(prop: str, base: Ctx, suffix: str = "_v") -> list:
    """Whole-tree benign variant: every local of every function renamed (sa/alpha.py).  -> obligations that are not discharged
    there although they are on the real tree (keys compared modulo the suffix)."""
    from .alpha import rename_locals
    ov = rename_locals(SourceTree(REPO), suffix)
    strip = lambda k: k.replace(suffix, "")
    ref = {(o.rule, strip(o.key), o.outcome) for o in base.obs}
    ctx = run_rules(prop, ov)
    return [(o.outcome, o.rule, o.key, o.file, o.line, o.msg[:200]) for o in ctx.obs if o.outcome != OK and (o.rule, strip(o.key), o.outcome) not in ref]


# ----------------------------------------------------------------------

def main(argv=None) -> int:
    ap = argparse.ArgumentParser()
    ap.add_argument("prop")
    ap.add_argument("--tier", default=os.environ.get("VERIF_TIER", "quick"), choices=["quick", "thorough"])
    ap.add_argument("--replay", default=None)
    ap.add_argument("--no-evidence", action="store_true")
    a = ap.parse_args(argv)
    prop = a.prop.upper()
    t0 = time.time()
    seed = int(os.environ.get("VERIF_SEED", "0") or 0)
    try:
        mod = load(prop)
        ctx = run_rules(prop, None, a.tier)
    except Exception as e:
        print(f"ANALYSIS-ERROR property={prop} internal error: {type(e).__name__}: {e}")
        traceback.print_exc()
        return 2

    known = [k for k in load_known() if k.get("property") == prop]
    known_keys = {k["key"] for k in known if k.get("status") == "known"}
    viol = ctx.by(VIOLATION)
    errs = ctx.by(UNRECOGNISED) + ctx.by(MISSING)
    listed = [o for o in viol if o.fkey in known_keys]
    unlisted = [o for o in viol if o.fkey not in known_keys]

    if a.replay:
        try:
            want = json.load(open(a.replay))
        except Exception as e:
            print(f"ANALYSIS-ERROR cannot read replay file: {e}")
            return 2
        hits = [o for o in ctx.obs if o.fkey == want.get("finding_key")]
        for o in hits:
            print(f"{o.outcome} {o.loc()} {o.rule} {o.key}: {o.msg}")
            if o.expected is not None:
                print(f"   expected: {o.expected}\n   found:    {o.found}")
        if not hits:
            print("construct no longer matched by the rule (obligation absent on the current tree)")
        return 1 if any(o.outcome == VIOLATION for o in hits) else 0

    sv = None
    if a.tier == "thorough" and not errs:
        try:
            sv = self_validate(prop, ctx)
            al = alpha_invariance(prop, ctx)
            sv["alpha_renaming_new_alarms"] = len(al)
            for x in al[:5]:
                sv["failures"].append({"benign": "all-locals-renamed", "state": "ran", "new_violations": [x], "errors": [],
                                       "why": "renaming local variables (behaviour preserved) changed a verdict: the rule depends on what a local is called"})
            cv = corpus_validate(prop, ctx)
            sv["corpus"] = {k: v for k, v in cv.items() if k != "failures"}
            sv["failures"].extend(cv["failures"])
            from .alpha import VARIANTS, transform
            sv["whole_tree_variants"] = {}
            for kind in VARIANTS:
                ref = {(o.rule, o.key, o.outcome) for o in ctx.obs}
                vctx = run_rules(prop, transform(SourceTree(REPO), kind))
                new = [(o.outcome, o.rule, o.key, o.file, o.line, o.msg[:200]) for o in vctx.obs if o.outcome != OK and (o.rule, o.key, o.outcome) not in ref]
                sv["whole_tree_variants"][kind] = len(new)
                for x in new[:3]:
                    sv["failures"].append({"benign": f"whole-tree:{kind}", "state": "ran", "new_violations": [x], "errors": [],
                                           "why": "an equivalent spelling (operand order of ==, `in d.keys()`, swapped if/else arms) changed a verdict"})
        except Exception as e:
            print(f"ANALYSIS-ERROR property={prop} self-validation crashed: {type(e).__name__}: {e}")
            traceback.print_exc()
            return 2

    # ---- report -----------------------------------------------------
    vdir = os.path.join(VERIF, "evidence", f"{prop}.violations")
    lines = []
    for o in listed:
        what = next((k.get("what", "") for k in known if k["key"] == o.fkey), "")
        lines.append(f"KNOWN-FINDING: property={prop} {o.loc()} [{o.rule}] {o.key} -- {what or o.msg}")
    for i, o in enumerate(unlisted):
        path = os.path.join(vdir, f"v{i:02d}.json")
        if not a.no_evidence:
            write_json(path, {"property": prop, "finding_key": o.fkey, "rule": o.rule, "construct": o.key,
                              "file": o.file, "line": o.line, "message": o.msg,
                              "expected": o.expected, "found": o.found,
                              "source_line": ctx.tree.line(o.file, o.line) if o.file and ctx.tree.exists(o.file) else ""})
        lines.append(f"  {o.loc()} [{prop}.{o.rule}] {o.key}: {o.msg}"
                     + (f"\n      expected: {o.expected}\n      found:    {o.found}" if o.expected is not None else ""))
        lines.append(f"VIOLATION property={prop} replay={path}")
    for o in errs:
        lines.append(f"ANALYSIS-ERROR property={prop} {o.outcome} {o.loc()} [{o.rule}] {o.key}: {o.msg}")
    sv_failed = bool(sv and sv["failures"])
    if sv_failed:
        for f in sv["failures"]:
            lines.append(f"ANALYSIS-ERROR property={prop} self-validation: {json.dumps(f, default=str)[:600]}")

    n_ob = len(ctx.obs)
    n_ok = len(ctx.by(OK))
    wall = time.time() - t0
    rules = {}
    for o in ctx.obs:
        r = rules.setdefault(o.rule, {"obligations": 0, "discharged": 0, "violations": 0, "errors": 0})
        r["obligations"] += 1
        r["discharged" if o.outcome == OK else "violations" if o.outcome == VIOLATION else "errors"] += 1
    samples = []
    seen_rules = {}
    for o in ctx.obs:
        if seen_rules.get(o.rule, 0) < 3:
            seen_rules[o.rule] = seen_rules.get(o.rule, 0) + 1
            samples.append({"rule": o.rule, "construct": o.key, "where": o.loc(), "outcome": o.outcome, "detail": o.msg[:240]})
    cov = {
        "explanation": getattr(mod, "EXPLANATION", ""),
        "obligations": n_ob,
        "discharged": n_ok,
        "evaluations": n_ob,
        "distinct_nontrivial": len({(o.rule, o.key) for o in ctx.obs}),
        "rule": "one evaluation = one rule instance (obligation) decided on a construct of /repo's current source; "
                "distinct = distinct (rule, construct) pairs; all are non-trivial in that each names a real construct",
        "samples": samples,
        "exhaustive": True,
        "rules": rules,
        "files_parsed": sorted(ctx.analysed["files"]),
        "functions_analysed": sorted(ctx.analysed["functions"]),
        "known_findings_reported": [o.fkey for o in listed],
        "unlisted_violations": [o.fkey for o in unlisted],
        "analysis_errors": [f"{o.rule}|{o.key}: {o.msg}" for o in errs],
        "notes": ctx.notes,
    }
    cov.update(ctx.stats)
    if sv is not None:
        cov["self_validation"] = {k: v for k, v in sv.items() if k not in ("killed",)}
        cov["self_validation"]["killed_sample"] = sv["killed"][:8]
    ev = {
        "property_id": prop, "tier": a.tier, "seed": seed, "level": "other",
        "coverage": cov,
        "assumptions": list(getattr(mod, "ASSUMPTIONS", [])),
        "wall_s": round(wall, 3),
        "violations": len(unlisted),
    }
    if not a.no_evidence:
        # stale replay files of an earlier run are removed when there is nothing to report
        if os.path.isdir(vdir):
            keep = {f"v{i:02d}.json" for i in range(len(unlisted))}
            for fn in os.listdir(vdir):
                if fn not in keep:
                    os.remove(os.path.join(vdir, fn))
            if not os.listdir(vdir):
                os.rmdir(vdir)
        write_json(os.path.join(VERIF, "evidence", f"{prop}.json"), ev)

    print(f"[{prop}] tier={a.tier} obligations={n_ob} discharged={n_ok} known={len(listed)} "
          f"violations={len(unlisted)} analysis-errors={len(errs)} wall={wall:.2f}s")
    for r, c in sorted(rules.items()):
        print(f"   {r}: {c['discharged']}/{c['obligations']} discharged"
              + (f", {c['violations']} violating" if c["violations"] else "")
              + (f", {c['errors']} unanalysable" if c["errors"] else ""))
    if sv is not None:
        print(f"   self-validation: mutants {sv['mutants_killed']}/{sv['mutants_total']} reported "
              f"({sv['mutants_inapplicable']} inapplicable to this tree), benign variants "
              f"{sv['benign_silent']}/{sv['benign_total']} silent ({sv['benign_inapplicable']} inapplicable)"
              + (f"; inapplicable: {', '.join(sv['inapplicable'])}" if sv["inapplicable"] else "")
              + f"; all-locals-renamed variant: {sv.get('alpha_renaming_new_alarms', 0)} new alarms"
              + f"; whole-tree variants {sv.get('whole_tree_variants', {})}"
              + (f"; stored corpus: seeded changes {sv['corpus']['seeds_reported']}/{sv['corpus']['seeds_total']} reported"
                 f" ({len(sv['corpus']['seeds_known_unreported'])} listed open), behaviour-preserving refactors {sv['corpus']['benign_silent']}/{sv['corpus']['benign_total']} silent"
                 f" ({len(sv['corpus']['benign_known_open'])} listed open), {len(sv['corpus']['inapplicable'])} not applicable to this tree" if "corpus" in sv else ""))
    for l in lines:
        print(l)
    if unlisted:
        return 1
    if errs or sv_failed:
        return 2
    return 0


if __name__ == "__main__":
    import signal
    try:
        signal.signal(signal.SIGPIPE, signal.SIG_DFL)
    except Exception:
        pass
    try:
        rc = main()
    except SystemExit:
        raise
    except BaseException as e:  # a traceback must never look like a verdict
        print(f"ANALYSIS-ERROR internal error: {type(e).__name__}: {e}")
        traceback.print_exc()
        rc = 2
    sys.stdout.flush()
    sys.exit(rc)
