"""C++ skeleton of a specialised template: text with placeholders for Jinja
outputs / loops, comments stripped, split into functions by brace matching."""
from __future__ import annotations

import re
from dataclasses import dataclass, field

OPEN, CLOSE, END = "\ue000", "\ue001", "\ue002"   # <OPEN>idx<CLOSE> = item start ; <END>idx<CLOSE> = block end
ELSE = "\ue003"


class Skel:
    def __init__(self, items):
        self.marks = []      # index -> item
        self.text = self._build(items)
        self.clean = strip_comments(self.text)
        self.funcs = split_functions(self.clean)

    def _build(self, items) -> str:
        out = []
        for it in items:
            k = it[0]
            if k == "text":
                out.append(it[1])
                continue
            if k == "other" and isinstance(it[1], str) and it[1].startswith(("macro-begin:", "macro-end:")):
                continue            # the brackets jmodel puts round an expanded macro call are not part of the text
            idx = len(self.marks)
            self.marks.append(it)
            if k in ("out", "set", "other"):
                out.append(f"{OPEN}{idx}{CLOSE}")
            elif k == "for":
                out.append(f"{OPEN}{idx}{CLOSE}")
                out.append(self._build(it[3]))
                out.append(f"{END}{idx}{CLOSE}")
            elif k == "if":
                out.append(f"{OPEN}{idx}{CLOSE}")
                out.append(self._build(it[2]))
                out.append(f"{ELSE}{idx}{CLOSE}")
                out.append(self._build(it[3]))
                out.append(f"{END}{idx}{CLOSE}")
            elif k == "setblock":
                out.append(f"{OPEN}{idx}{CLOSE}")
        return "".join(out)

    def items_in(self, fname: str):
        """(item, offset) of every placeholder start inside function `fname` (all overloads)."""
        res = []
        for f in self.funcs:
            if f.name == fname:
                for m in re.finditer(f"{OPEN}(\\d+){CLOSE}", self.clean[f.start:f.end]):
                    res.append((self.marks[int(m.group(1))], f.start + m.start()))
        return res

    def func(self, fname: str):
        return [f for f in self.funcs if f.name == fname]

    def func_of_offset(self, off: int):
        for f in self.funcs:
            if f.start <= off < f.end:
                return f
        return None

    def offset_of_item(self, item):
        for i, it in enumerate(self.marks):
            if it is item:
                m = re.search(f"{OPEN}{i}{CLOSE}", self.clean)
                return m.start() if m else None
        return None

    def plain(self, s: str, hole=" __HOLE__ ") -> str:
        """Text with every placeholder replaced (for C tokenising)."""
        s = re.sub(f"{OPEN}\\d+{CLOSE}", hole, s)
        s = re.sub(f"[{END}{ELSE}]\\d+{CLOSE}", " ", s)
        return s


def strip_comments(s: str) -> str:
    out = []
    i = 0
    n = len(s)
    while i < n:
        c = s[i]
        if c == "/" and i + 1 < n and s[i + 1] == "/":
            j = s.find("\n", i)
            j = n if j < 0 else j
            # keep placeholders that sit inside a // comment out of the code
            i = j
        elif c == "/" and i + 1 < n and s[i + 1] == "*":
            j = s.find("*/", i + 2)
            j = n if j < 0 else j + 2
            seg = s[i:j]
            # placeholders of block structure (for/if) inside comment shells must survive:
            keep = "".join(re.findall(f"[{OPEN}{END}{ELSE}]\\d+{CLOSE}", seg))
            out.append(keep)
            out.append("\n" * seg.count("\n"))
            i = j
        elif c == '"':
            j = i + 1
            while j < n and s[j] != '"':
                if s[j] == "\\":
                    j += 1
                j += 1
            seg = s[i:j + 1]
            out.append('"' + "".join(re.findall(f"[{OPEN}{END}{ELSE}]\\d+{CLOSE}", seg)) + '"')
            i = j + 1
        elif c == "'" and i + 2 < n and (s[i + 2] == "'" or (s[i + 1] == "\\" and i + 3 < n and s[i + 3] == "'")):
            j = i + (3 if s[i + 2] == "'" else 4)
            out.append("'c'")
            i = j
        else:
            out.append(c)
            i += 1
    return "".join(out)


@dataclass
class Func:
    name: str
    header: str
    start: int      # offset of the opening brace
    end: int        # offset after the closing brace
    body: str


HEAD = re.compile(r"([A-Za-z_~][\w]*(?:\s*::\s*[A-Za-z_~]\w*)*(?:\s*::\s*operator\s*\(\s*\))?|operator\s*\(\s*\))\s*\(([^()]|\([^()]*\))*\)\s*(const)?\s*(:[^{};]*)?$", re.S)
SCOPE = re.compile(r"^\s*(namespace\b|extern\s+\"|struct\b|class\b|union\b|enum\b)")


def split_functions(s: str) -> list:
    funcs = []
    n = len(s)
    i = 0
    last = 0           # start of the current declaration's text at scope level
    scope_stack = []   # positions where a scope (namespace/class) brace was opened
    while i < n:
        c = s[i]
        if c == "#" and (i == 0 or s[i - 1] == "\n" or s[:i].rstrip(" \t").endswith("\n") or not s[:i].strip()):
            j = i
            while True:
                k = s.find("\n", j)
                if k < 0:
                    k = n
                    break
                if s[k - 1] == "\\":
                    j = k + 1
                    continue
                break
            i = k + 1
            last = i
            continue
        if c == ";":
            last = i + 1
        elif c == "}":
            if scope_stack:
                scope_stack.pop()
            last = i + 1
        elif c == "{":
            header = s[last:i]
            hclean = re.sub(f"[{OPEN}{END}{ELSE}]\\d+{CLOSE}", " ", header).strip()
            if SCOPE.match(hclean) and "(" not in hclean.split("{")[0]:
                scope_stack.append(i)
                last = i + 1
            elif "=" in hclean and "(" not in hclean:
                # aggregate initialiser at file scope: skip to matching brace
                j = match_brace(s, i)
                i = j
                continue
            else:
                j = match_brace(s, i)
                m = HEAD.search(hclean)
                name = re.sub(r"\s+", "", m.group(1)) if m else "?"
                funcs.append(Func(name, hclean, i, j, s[i:j]))
                i = j
                last = j
                continue
        i += 1
    return funcs


def match_brace(s: str, i: int) -> int:
    depth = 0
    n = len(s)
    j = i
    while j < n:
        if s[j] == "{":
            depth += 1
        elif s[j] == "}":
            depth -= 1
            if depth == 0:
                return j + 1
        j += 1
    return n


def line_of(s: str, off: int) -> int:
    return s.count("\n", 0, off) + 1
