"""Whole-tree behaviour-preserving transformation used to test the checks for false alarms: every local variable of every
top-level function / method of naunet/*.py is renamed (x -> x<suffix>).  Parameters, attributes, globals, keyword names and
names bound in nested scopes are left alone.  The result is an overlay (path -> text) for SourceTree."""
from __future__ import annotations

import ast

from .core import SourceTree


class _Ren(ast.NodeTransformer):
    def __init__(self, names, suffix):
        self.names, self.suffix = names, suffix

    def visit_Name(self, n):
        if n.id in self.names:
            n.id = n.id + self.suffix
        return n

    def visit_arg(self, n):
        return n


def _locals_of(fn):
    out = set()
    params = {a.arg for a in fn.args.args + fn.args.kwonlyargs + fn.args.posonlyargs}
    if fn.args.vararg:
        params.add(fn.args.vararg.arg)
    if fn.args.kwarg:
        params.add(fn.args.kwarg.arg)
    glob = set()
    for n in ast.walk(fn):
        if isinstance(n, (ast.Global, ast.Nonlocal)):
            glob |= set(n.names)

    def rec(node):
        for ch in ast.iter_child_nodes(node):
            if isinstance(ch, (ast.FunctionDef, ast.Lambda, ast.ClassDef, ast.AsyncFunctionDef)):
                continue
            if isinstance(ch, ast.Name) and isinstance(ch.ctx, ast.Store):
                out.add(ch.id)
            rec(ch)
    rec(fn)
    inner = set()
    for n in ast.walk(fn):
        if n is not fn and isinstance(n, (ast.FunctionDef, ast.Lambda)):
            inner |= {a.arg for a in n.args.args + n.args.kwonlyargs}
    return out - params - glob - inner - {"_"}


def rename_locals(tree: SourceTree, suffix: str = "_v") -> dict:
    overlay = {}
    for rel in tree.files():
        if not rel.endswith(".py") or rel.startswith("naunet/examples/"):
            continue
        mod = ast.parse(tree.read(rel))

        def handle(body):
            for node in body:
                if isinstance(node, (ast.FunctionDef, ast.AsyncFunctionDef)):
                    names = _locals_of(node)
                    if names:
                        _Ren(names, suffix).visit(node)
                elif isinstance(node, ast.ClassDef):
                    handle(node.body)
        handle(mod.body)
        overlay[rel] = ast.unparse(mod) + "\n"
    return overlay


# ---------------------------------------------------------------------- further behaviour-preserving whole-tree variants

class _SwapEq(ast.NodeTransformer):
    """a == b  ->  b == a   (both sides side-effect free: names, attributes, constants, subscripts)"""
    def visit_Compare(self, n):
        self.generic_visit(n)
        pure = lambda e: all(isinstance(x, (ast.Name, ast.Attribute, ast.Constant, ast.Subscript, ast.Load, ast.UnaryOp, ast.USub)) for x in ast.walk(e))
        if len(n.ops) == 1 and isinstance(n.ops[0], (ast.Eq, ast.NotEq)) and pure(n.left) and pure(n.comparators[0]):
            n.left, n.comparators = n.comparators[0], [n.left]
        return n


class _KeysIn(ast.NodeTransformer):
    """x in d.keys()  ->  x in d"""
    def visit_Compare(self, n):
        self.generic_visit(n)
        if len(n.ops) == 1 and isinstance(n.ops[0], (ast.In, ast.NotIn)):
            c = n.comparators[0]
            if isinstance(c, ast.Call) and isinstance(c.func, ast.Attribute) and c.func.attr == "keys" and not c.args:
                n.comparators = [c.func.value]
        return n


class _SwapBranches(ast.NodeTransformer):
    """if c: A else: B  ->  if not c: B else: A   (plain if/else only, not elif chains)"""
    def visit_If(self, n):
        self.generic_visit(n)
        if n.orelse and not (len(n.orelse) == 1 and isinstance(n.orelse[0], ast.If)) and not (len(n.body) == 1 and isinstance(n.body[0], ast.If) and False):
            t = n.test
            if isinstance(t, ast.UnaryOp) and isinstance(t.op, ast.Not):
                n.test = t.operand
            else:
                n.test = ast.UnaryOp(op=ast.Not(), operand=t)
            n.body, n.orelse = n.orelse, n.body
        return n


def _jinja_rename_loopvars(src: str, suffix: str = "_q") -> str:
    """Rename the targets of every `{% for %}` of a template (and their uses inside the loop).  Token based (jinja2's lexer);
    `loop`, attribute names after a dot and keyword-argument names are left alone.  Whitespace that `-%}` / `{%-` strip anyway may
    be dropped by the lexer; the rendered output is unchanged (checked once by rendering both trees, see DESIGN 10.8)."""
    import jinja2
    env = jinja2.Environment(keep_trailing_newline=True)
    toks = list(env.lex(src))
    n = len(toks)
    res = [t[2] for t in toks]
    stack = []

    def nxt(j):
        j += 1
        while j < n and toks[j][1] == "whitespace":
            j += 1
        return j

    def prv(j):
        j -= 1
        while j >= 0 and toks[j][1] == "whitespace":
            j -= 1
        return j
    j = 0
    while j < n:
        _, typ, val = toks[j]
        if typ == "block_begin":
            k = nxt(j)
            if k < n and toks[k][1] == "name" and toks[k][2] == "for":
                names, tgt_idx = set(), []
                m = nxt(k)
                while m < n and not (toks[m][1] == "name" and toks[m][2] == "in"):
                    if toks[m][1] == "name":
                        names.add(toks[m][2])
                        tgt_idx.append(m)
                    m = nxt(m)
                outer = set().union(*stack) if stack else set()
                stack.append(names)
                for t in tgt_idx:
                    res[t] = toks[t][2] + suffix
                e = nxt(m)
                while e < n and toks[e][1] != "block_end":
                    if toks[e][1] == "name":
                        p_, q_ = prv(e), nxt(e)
                        if toks[e][2] in outer and not (p_ >= 0 and toks[p_][1] == "dot") and not (q_ < n and toks[q_][1] == "assign"):
                            res[e] = toks[e][2] + suffix
                    e = nxt(e)
                j = e + 1
                continue
            if k < n and toks[k][1] == "name" and toks[k][2] == "endfor" and stack:
                stack.pop()
        if typ == "name" and stack:
            scope = set().union(*stack)
            p_, q_ = prv(j), nxt(j)
            if val in scope and val != "loop" and not (p_ >= 0 and toks[p_][1] == "dot") and \
                    not (q_ < n and toks[q_][1] == "assign" and p_ >= 0 and toks[p_][1] in ("comma", "lparen")):
                res[j] = val + suffix
        j += 1
    return "".join(res)


VARIANTS = {"swap-eq": _SwapEq, "keys-in": _KeysIn, "swap-branches": _SwapBranches, "jinja-loopvars": None}


def transform(tree: SourceTree, kind: str) -> dict:
    overlay = {}
    if kind == "jinja-loopvars":
        for rel in tree.files():
            if rel.endswith(".j2"):
                try:
                    t = _jinja_rename_loopvars(tree.read(rel))
                except Exception:
                    continue
                if t != tree.read(rel):
                    overlay[rel] = t
        return overlay
    for rel in tree.files():
        if not rel.endswith(".py") or rel.startswith("naunet/examples/"):
            continue
        mod = ast.parse(tree.read(rel))
        mod = VARIANTS[kind]().visit(mod)
        ast.fix_missing_locations(mod)
        overlay[rel] = ast.unparse(mod) + "\n"
    return overlay
