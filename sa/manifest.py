"""Regenerate /verif/MANIFEST.json from the property modules that exist.

  /venv/bin/python -m sa.manifest
"""
from __future__ import annotations

import importlib
import json
import os

from .core import VERIF

NA_REASONS = {}

ENGINES = [
    {"name": "pymodel", "path": "sa/pymodel.py", "kind_free_text": "package model: classes, C3 MRO, method resolution, class-level literals (ast)"},
    {"name": "valueflow", "path": "sa/valueflow.py", "kind_free_text": "def-use expression reconstruction of one function into a tuple IR; emission facts with loop contexts and guards; sequence-as-map normaliser; lowering to C text with typed holes"},
    {"name": "calg", "path": "sa/calg.py", "kind_free_text": "C expression parser and canonical algebra over positive reals (equivalence of rate laws / terms)"},
    {"name": "jmodel", "path": "sa/jmodel.py", "kind_free_text": "Jinja template model from jinja2's parser: includes resolved, {% if %} specialised per configuration"},
    {"name": "cskel", "path": "sa/cskel.py", "kind_free_text": "C++ skeleton of a specialised template, split into functions by brace matching"},
    {"name": "normalize", "path": "sa/normalize.py", "kind_free_text": "behaviour-preserving AST normalisations applied at parse time: static-loop unrolling, local-def / helper inlining (so that rules do not depend on which equivalent spelling the source uses)"},
    {"name": "multiplicity", "path": "sa/multiplicity.py", "kind_free_text": "lint shared by C01/C02/C04/C05/C11/C13: sets / dicts keyed by reactant species in term-building code"},
    {"name": "patchapply", "path": "sa/patchapply.py", "kind_free_text": "in-memory application of stored unified diffs (seeded / benign corpora) as overlays of the parsed tree, thorough tier"},
    {"name": "odemodel", "path": "sa/odemodel.py", "kind_free_text": "normal form (row, col, sign, coefficient, product-over-list) of every store into rhs[]/jacrhs[] of _prepare_ode_content"},
]


def main():
    props = [json.loads(l) for l in open(os.path.join(VERIF, "properties.jsonl"))]
    checks, na = [], []
    serves = {e["name"]: [] for e in ENGINES}
    for p in props:
        pid = p["id"]
        try:
            mod = importlib.import_module(f"sa.props.{pid.lower()}")
        except ModuleNotFoundError:
            mod = None
        if mod is None or getattr(mod, "NOT_CLAIMED", None):
            na.append({"property_id": pid, "reason": NA_REASONS.get(pid) or getattr(mod, "NOT_CLAIMED", None) or "check not built yet (work in progress)"})
            continue
        for e in getattr(mod, "ENGINES", ["pymodel", "valueflow"]):
            serves.setdefault(e, []).append(pid)
        checks.append({
            "property_id": pid,
            "quick_cmd": f"/venv/bin/python -m sa.check {pid} --tier quick",
            "thorough_cmd": f"/venv/bin/python -m sa.check {pid} --tier thorough",
            "evidence_file": f"/verif/evidence/{pid}.json",
            "replay_cmd_template": f"/venv/bin/python -m sa.check {pid} --replay {{path}}",
            "engine": "+".join(getattr(mod, "ENGINES", ["pymodel", "valueflow"])),
            "level_claimed": {
                "category": "other",
                "text": getattr(mod, "LEVEL", None) or ("Static analysis of /repo's current source: " + mod.EXPLANATION),
                "design_ref": f"DESIGN.md section 4, {pid}",
            },
            "level_note": getattr(mod, "NOTE", None) or ("Decides the structural clause only; assumes: " + "; ".join(getattr(mod, "ASSUMPTIONS", []))),
            "technique": getattr(mod, "TECHNIQUE", "static analysis: AST def-use reconstruction + custom lint rules over Python sources and Jinja templates"),
        })
    engines = []
    for e in ENGINES:
        d = dict(e)
        d["serves_properties"] = sorted(set(serves.get(e["name"], [])))
        engines.append(d)
    m = {
        "version": 1,
        "setup_cmd": "true",
        "hooks": {
            "guard": "NAUNET_VERIF",
            "enable": "none needed: the checks parse /repo's sources and never execute them",
            "baseline_off_cmd": "cd /repo && /venv/bin/python -m pytest -ra -q -p no:cacheprovider --timeout=900 --continue-on-collection-errors",
            "source_commits": [],
            "add_only": True,
        },
        "engines": engines,
        "checks": checks,
        "notes": "Static analysis only (see DESIGN.md). exit 0 = all obligations discharged or only listed known findings; "
                 "exit 1 + VIOLATION line = unlisted violation; exit 2 + ANALYSIS-ERROR = tree not analysable (anchor vanished / shape "
                 "not understood / checker self-validation failed) -- never a verdict. Thorough tier additionally validates the checker "
                 "against its catalogue of seeded mutants and behaviour-preserving variants (in-memory overlays on the parsed tree).",
        "not_applicable": na,
    }
    with open(os.path.join(VERIF, "MANIFEST.json"), "w") as f:
        json.dump(m, f, indent=1)
        f.write("\n")
    print(f"MANIFEST.json: {len(checks)} checks, {len(na)} not claimed")


if __name__ == "__main__":
    main()
